#!/usr/bin/env python3
"""Regenerate /verif/MANIFEST.json from the table below (single source of truth)."""
import json
props=[json.loads(l) for l in open('/verif/properties.jsonl')]
T="deterministic simulation: "
CLAIMED={
 "C01":("exploration","Seeded search over version-DAG histories (put/delete/commit/new-version/branch/merge with 2-4 parents, restarts, randomised map-iteration seed) run against the real server inside the deterministic simulator; every (key, version) read by GET/HEAD is compared with a naive reference resolver (maximal entries among ancestors-or-self). Sampling, not proof.",
        "Trusts Badger, the Go runtime, the thin wrapping engines and the reference resolver.",T+"seeded history search + reference-model oracle","DESIGN.md 7/C01"),
 "C05":("exploration","Seeded histories over a branched DAG with mutually-prefixing keys and foreign neighbour instances; at check points every listing/range/streaming endpoint (HTTP json/tar/protobuf and store-level GetRange/KeysInRange/SendKeysInRange/ProcessRange) is compared relationally with the set of point reads, and store-level DeleteRange against the model at every version.",
        "Keys with two unsuperseded live values (merge conflict) are outside the oracle; trusts the parent-side tar/protobuf/JSON decoders.",T+"seeded history search + relational (range vs point) oracle","DESIGN.md 7/C05"),
 "C07":("exploration","Seeded sequences of repo-level requests with every argument kind of the quantifier (fresh/duplicate/malformed/empty UUIDs and branch names; committed/open/unknown/repeated/foreign parents; HTTP and RPC), with restarts; graph invariants are evaluated on GET /api/repos/info after every request, a rejected request must leave the normalised graph unchanged, and a restart must reload the same graph.",
        "Duplicate parent links of one merge are not counted as malformed (the statement does not forbid them). Master-branch linearity is only required of nodes created by branch/new-version requests.",T+"seeded request-sequence search + invariant oracle after every step","DESIGN.md 7/C07"),
 "C03":("exploration","Seeded histories of acknowledged operations with 1-3 restarts (real clean shutdown under the fake clock, or abrupt exit at idle) where the next lifetime is a fresh OS process on the same directories; the complete observable snapshot before the stop must equal the one after start-up, and the reference model keeps running across the restart so rebuilt state must behave like the state it replaced.",
        "Workload currently covers repo/DAG, key-value, notes/logs, instance creation and the JSON mutation log; JSON null vs empty containers are treated as equal; mutation-id counters are excluded as the statement allows.",T+"seeded history search with restart faults + snapshot-equality and model oracles","DESIGN.md 7/C03"),
 "C04":("fault_enumeration","For every sampled short workload, EVERY mutating store/log call of every operation is a crash point (before and after), each followed by a fresh-process start-up (a sample with a second crash during recovery): start-up must succeed, graph invariants hold, the snapshot equals the fault-free snapshot before or after the interrupted operation, the retried operation and the rest of the workload succeed, acknowledged writes and mutation-log records are all present; JSON mutation logs are cut inside their last record.",
        "Crash = process death (os.Exit in the wrapping engine); crash points are DVID->store calls, not single Badger transactions; workloads are sampled (repo-level and single-key operations).",T+"exhaustive crash-point enumeration per sampled workload + recovery oracles","DESIGN.md 7/C04"),
 "C11":("exploration","Concurrent batches of 2-4 colliding requests interleaved by the seeded scheduler at every storage call and every Badger transaction; key-value histories are checked for linearizability with porcupine against a per-key register model; concurrent new-version/branch/commit/merge requests are checked against the graph invariants (one child per branch, every acknowledged child present).",
        "Interleavings are decided at DVID->store calls and Badger transaction starts; porcupine Unknown is inconclusive; compound types (annotations, label merges/cleaves, neuron annotations) are added as their models are built.",T+"seeded schedule search + linearizability checking (porcupine) + invariant oracles","DESIGN.md 7/C11"),
 "C08":("exploration","Seeded proofreading histories (ingest, mutating writes, merge, cleave, supervoxel split incl. volumes partly outside the supervoxel, renumber, next-label) over branched version trees with restarts; after operations and finally on all versions every read endpoint is compared voxel-exactly with a dense supervoxel array + supervoxel->body map reference model.",
        "Version DAGs of label histories are trees; body split and POST blocks / ingest-supervoxels / indices / mappings ingestion are not exercised by this check; parent-side decoders for RLE, block streams and the label-index protobuf are trusted.",T+"seeded history search + dense reference-model oracle","DESIGN.md 7/C08"),
 "C12":("exploration","Allocation-heavy label histories with concurrent allocating batches, clean/kill restarts, process exit at a random write of an allocating operation, acknowledged ingests killed before their background work ran, and a family that crosses the 100-id persist-ahead stride inside one lifetime; over the whole multi-lifetime history labels, mutation ids and version ids must be unique, increasing in issue order and above every label present.",
        "Instance and repo ids are not exposed by the API and are only covered indirectly; after a crash the model is re-synchronised from the server (the interrupted operation's effect is unknown).",T+"seeded history + schedule + crash search, global uniqueness/monotonicity oracle","DESIGN.md 7/C12"),
 "C14":("exploration","Label histories on volumes with MaxDownresLevel 1-3 (ingests and mutating writes of random block boxes incl. negative block coordinates, splits, body splits, concurrent sibling ingests); each mutation is issued unsettled and the instance's idle flags are probed at scheduler-chosen instants: whenever the volume reports idle the whole pyramid is read and every level must equal the reference 2x2x2 vote over the level beneath it (as read back from the server); checked again after settling and on the parent version.",
        "Level n+1 is compared with level n as stored by the server (not with the model); idle = Updating()/AnyScaleUpdating() as polled by BlockOnUpdating, observed through an in-process probe.",T+"seeded history + schedule search, relational level-to-level oracle, idle-state probing","DESIGN.md 7/C14"),
}
NA={
 "C09":"pure function of its input at package level (block codec): no schedule, clock, fault, crash point or history for a simulator to decide (DESIGN.md section 8)",
 "C10":"pure function of its input at package level (operations on compressed blocks): nothing for deterministic simulation to decide (DESIGN.md section 8)",
 "C18":"pure functions at package level (spatial keys, packed indices, run-length algebra): nothing for deterministic simulation to decide (DESIGN.md section 8)",
}
import subprocess
hooks=[l.split()[0] for l in subprocess.run(["git","-C","/repo","log","--format=%h %s"],capture_output=True,text=True).stdout.splitlines() if "verif hook" in l]
checks=[]
for pid,(cat,text,note,tech,ref) in sorted(CLAIMED.items()):
    checks.append({"property_id":pid,"quick_cmd":f"bin/check {pid} quick","thorough_cmd":f"bin/check {pid} thorough","evidence_file":f"evidence/{pid}.json",
      "replay_cmd_template":f"bin/check {pid} --replay {{path}}","engine":"dvid-dsim","level_claimed":{"category":cat,"text":text,"design_ref":ref},"level_note":note,"technique":tech})
na=[]
for p in props:
    if p['id'] in CLAIMED: continue
    na.append({"property_id":p['id'],"reason":NA.get(p['id'],"check not built yet in this revision (work in progress; see DESIGN.md section 7)")})
m={"version":1,"setup_cmd":"bin/build",
 "hooks":{"guard":"verif (Go build tag)","enable":"bin/build compiles /repo's working tree with -tags \"badger verif\" into the simulation child (go1.26.8 + runtime build overlay); the only hook is server/verif_export.go","baseline_off_cmd":"cd /repo && GOFLAGS=-mod=mod go test -vet=off -count=1 -timeout 25m ./...","source_commits":hooks,"add_only":True},
 "engines":[{"name":"dvid-dsim","path":"sim/","serves_properties":sorted(CLAIMED),"kind_free_text":"deterministic simulation with fault injection: the whole DVID server in one child process per server lifetime (testing/synctest fake clock, cooperative seeded scheduler at storage calls, wrapping storage engines as yield and fault points, pinned map iteration order, deterministic UUIDs); parent process with generators, reference models, oracles, shrinker, replay"}],
 "checks":checks,"not_applicable":na,
 "notes":"All checks: bin/check <id> quick|thorough|--replay <file>. exit 0 held, 1 VIOLATION, 2 infrastructure. Known findings: known_findings.json."}
json.dump(m,open('/verif/MANIFEST.json','w'),indent=1)
print("claimed",sorted(CLAIMED))
