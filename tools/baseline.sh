#!/bin/bash
# Runs the pinned baseline (guard OFF) and checks that all 47 stable tests pass.
export GOFLAGS=-mod=mod GOPROXY=off GOTOOLCHAIN=local
cd /repo && go test -json -vet=off -count=1 -timeout 25m ./... 2>/dev/null > /tmp/baseline.json
python3 - <<'PY'
import json
base=set(json.load(open('/root/.vp/BASELINE.json'))['stable_pass'])
passed=set()
for l in open('/tmp/baseline.json'):
    try: e=json.loads(l)
    except: continue
    if e.get('Action')=='pass' and e.get('Test'): passed.add(e['Package']+'::'+e['Test'])
missing=base-passed
print("baseline tests passing: %d of %d"%(len(base&passed),len(base)))
if missing: print("MISSING:",sorted(missing)); raise SystemExit(1)
PY
