#!/bin/bash
# usage: tools/seedtest.sh <seeded-dir> <property> [quick|thorough]
# Applies the seeded change to /repo, runs the check, reverts.  Prints DETECTED / MISSED.
d=$1; prop=$2; tier=${3:-quick}
cd /repo || exit 2
git status --short | grep -q . && { echo "repo not clean"; exit 2; }
if ! git apply --check $d/patch.diff 2>/dev/null; then
  if git apply --3way $d/patch.diff 2>/dev/null; then echo "applied with 3way"; git reset -q; else echo "PATCH-DOES-NOT-APPLY $d"; git reset -q --hard HEAD; exit 3; fi
else
  git apply $d/patch.diff
fi
cd /verif
# the evidence file of the property must keep describing the unchanged tree
bak=$(mktemp /dev/shm/evidence-bak.XXXXXX); cp evidence/$prop.json $bak 2>/dev/null
out=$(VERIF_SEED=${VERIF_SEED:-1} bin/check $prop $tier 2>&1); rc=$?
[ -s $bak ] && cp $bak evidence/$prop.json; rm -f $bak
git -C /repo reset -q --hard HEAD; git -C /repo clean -fdq -- . 2>/dev/null
echo "$out" | grep -E "VIOLATION|oracle=|DONE|KNOWN" | head -6
if [ $rc -eq 1 ]; then echo "RESULT $d $prop $tier DETECTED"; elif [ $rc -eq 0 ]; then echo "RESULT $d $prop $tier MISSED"; else echo "RESULT $d $prop $tier INFRA rc=$rc"; echo "$out" | tail -5; fi
# leave a build of the unchanged tree behind (direct uses of .build/simdrv must never see a seeded child)
/verif/bin/build >/dev/null 2>&1
