#!/usr/bin/env python3
"""Regenerate the generated parts of DESIGN.md: section 7 (from MANIFEST.json), 11.1/11.2 (from
known_findings.json + git log of /repo) and the seed table of section 12 (from seeded/MATRIX.txt)."""
import json,subprocess,re,os
p='/verif/DESIGN.md'
s=open(p).read()
def between(s,beg,end,new):
    a=s.index(beg)+len(beg); b=s.index(end)
    return s[:a]+"\n"+new+"\n"+s[b:]
# ---- findings ----
kf=json.load(open('/verif/known_findings.json'))['findings']
log=subprocess.run(["git","-C","/repo","log","--format=%h %s","--reverse"],capture_output=True,text=True).stdout.splitlines()
nfix=sum(1 for l in log if l.split(' ',1)[1].startswith('fix:'))
out=["### 11.1 Repaired (%d `fix:` commits)\n\n| property | commit | what failed |\n|---|---|---|\n"%nfix]
seen=set()
for f in kf:
    if f['status']!='fixed': continue
    what=f['what']; pre="fixed: property=%s %s "%(f['property'],f['commit'])
    if what.startswith(pre): what=what[len(pre):]
    out.append("| %s | %s | %s |\n"%(f['property'],f['commit'],what.replace('|','/')))
    seen.add(f['commit'])
for l in log:
    h,sub=l.split(' ',1)
    if sub.startswith('fix:') and h not in seen:
        out.append("| — | %s | %s |\n"%(h,sub[5:]))
out.append("\n### 11.2 Recorded, not repaired (the checks print `KNOWN-FINDING` and exit 0)\n\n")
for f in kf:
    if f['status']=='known':
        out.append("* **%s** — signature `%s`: %s\n"%(f['property'],f['signature'],f['what']))
s=between(s,"<!-- BEGIN:FINDINGS -->","<!-- END:FINDINGS -->","".join(out))
# ---- seeds ----
mp='/verif/seeded/MATRIX.txt'
if os.path.exists(mp):
    rows={}
    for l in open(mp):
        l=l.rstrip('\n')
        if not l: continue
        head,_,sig=l.partition(' | ')
        f=head.split()
        if len(f)<3: continue
        rows.setdefault(f[0],[]).append((f[1],f[2],sig))
    t=["| seeded change | what it does | caught by | signature of the first detection |\n|---|---|---|---|\n"]
    stats={'DETECTED':0,'MISSED':0,'OTHER':0}
    def key(k):
        m=re.match(r'C(\d+)-(\d+)',k); return (int(m.group(1)),int(m.group(2)))
    for sid in sorted(rows,key=key):
        try: title=json.load(open('/verif/seeded/%s/meta.json'%sid)).get('title','')
        except Exception: title=''
        det=[(p_,sig) for p_,r,sig in rows[sid] if r=='DETECTED']
        oth=[(p_,r) for p_,r,sig in rows[sid] if r!='DETECTED']
        note=''
        np_='/verif/seeded/%s/note'%sid
        if os.path.exists(np_): note=open(np_).read().strip()
        if det:
            stats['DETECTED']+=1
            t.append("| %s | %s | %s | %s |\n"%(sid,title.replace('|','/'),", ".join(p_ for p_,_ in det),det[0][1].replace('|','/')))
        else:
            res=", ".join("%s: %s"%(p_,r) for p_,r in oth)
            stats['MISSED' if all(r=='MISSED' for _,r in oth) else 'OTHER']+=1
            t.append("| %s | %s | **not caught** (%s) | %s |\n"%(sid,title.replace('|','/'),res,note.replace('|','/')))
    t.append("\n%d seeded changes: %d caught, %d not caught, %d not applicable any more (patch no longer applies / no check).\n"%(len(rows),stats['DETECTED'],stats['MISSED'],stats['OTHER']))
    s=between(s,"<!-- BEGIN:SEEDS -->","<!-- END:SEEDS -->","".join(t))
open(p,'w').write(s)
print("DESIGN.md regenerated: %d fix commits"%nfix)
