#!/bin/bash
# usage: tools/seedmatrix.sh [tier]   -- every seeded change against its own property's check
# (and extra properties listed in seeded/<id>/also), sequentially; writes seeded/MATRIX.txt
tier=${1:-quick}
from=${2:-}
cd /verif
out=seeded/MATRIX.txt
if [ -n "$from" ]; then grep -v " *$" /dev/null; awk -v f="$from" '$1==f{exit} {print}' $out > $out.tmp; else : > $out.tmp; fi
skip=$from
for d in $(ls -d seeded/C*-*/ | sort -V); do
  id=$(basename $d); prop=${id%%-*}
  if [ -n "$skip" ]; then [ "$id" = "$skip" ] && skip="" || continue; fi
  props="$prop"
  [ -f $d/also ] && props="$props $(cat $d/also)"
  for p in $props; do
    grep -q "\"$p\":(" tools/mkmanifest.py || { echo "$id $p NOCHECK" >> $out.tmp; continue; }
    r=$(tools/seedtest.sh /verif/$d $p $tier 2>&1)
    res=$(echo "$r" | grep -a "^RESULT" | awk '{print $NF}' | tail -1)
    echo "$r" | grep -q "PATCH-DOES-NOT-APPLY" && res="NOAPPLY"
    sig=$(echo "$r" | grep -a "signature=" | head -1 | sed 's/.*signature=//' | cut -c1-140)
    echo "$id $p $res | $sig" >> $out.tmp
    echo "$id $p $res"
  done
done
mv $out.tmp $out
