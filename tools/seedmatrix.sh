#!/bin/bash
# usage: tools/seedmatrix.sh [tier]   -- every seeded change against its own property's check
# (and extra properties listed in seeded/<id>/also), sequentially; writes seeded/MATRIX.txt
tier=${1:-quick}
cd /verif
out=seeded/MATRIX.txt
: > $out.tmp
for d in seeded/C*-*/; do
  id=$(basename $d); prop=${id%%-*}
  props="$prop"
  [ -f $d/also ] && props="$props $(cat $d/also)"
  for p in $props; do
    grep -q "\"$p\":(" tools/mkmanifest.py || { echo "$id $p NOCHECK" >> $out.tmp; continue; }
    r=$(tools/seedtest.sh /verif/$d $p $tier 2>&1)
    res=$(echo "$r" | grep -a "^RESULT" | awk '{print $NF}' | tail -1)
    echo "$r" | grep -q "PATCH-DOES-NOT-APPLY" && res="NOAPPLY"
    sig=$(echo "$r" | grep -a "signature=" | head -1 | sed 's/.*signature=//' | cut -c1-140)
    echo "$id $p $res | $sig" >> $out.tmp
    echo "$id $p $res"
  done
done
mv $out.tmp $out
