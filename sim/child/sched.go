package child

// Cooperative scheduler: real goroutines are parked at every intercepted
// storage/log call and released one at a time, at quiescence, by a seeded
// choice.  See DESIGN.md section 2.2.

import (
	"bytes"
	"fmt"
	"math/rand/v2"
	"os"
	"runtime"
	"runtime/metrics"
	"sort"
	"strings"
	"sync"
	"sync/atomic"
	"time"
	"unsafe"

	"verif/sim/proto"
)

type parkedG struct {
	label   string
	origin  string
	arrival uint64
	ch      chan struct{}
	hold    bool // not released while another goroutine is parked (crash side "held")
}

type simT struct {
	mu       sync.Mutex
	parked   []*parkedG
	arrivals uint64
	schedGID uint64

	seq atomic.Uint64 // global event sequence: every decision and every client return

	origins sync.Map // label pointer (uintptr) -> origin string

	passthrough atomic.Bool // read-only sweeps: yields are no-ops, nothing parked is released

	// schedule source
	rng        *rand.Rand
	choices    []int
	choiceIdx  int
	bias       int
	lastOrigin string

	// recording (per command)
	outChoices []int
	outWidths  []int
	events     []string
	detail     int
	writeLog   []string
	faultCount map[string]int

	// faults
	fmu          sync.Mutex
	plan         proto.FaultPlan
	writes       int // mutating calls so far in this lifetime
	matchCount   int // mutating calls matching CrashMatch so far
	errCount     int
	corruptCnt   map[int]int
	prio         map[string]int // Bias 2: priority per origin for the current command
	prioLow      int
	curResps     *[]proto.Resp // answers of the batch in progress (reported if the process is crashed inside it)
	pendingAfter string // label whose "after" crash is armed

	out *os.File // result stream, for the crash message

	metricSamples []metrics.Sample
	stackBuf      []byte
	fakeEpoch     time.Time
}

var theSim = &simT{}

// realMS is advanced by a goroutine outside the bubble (real time, ms).
var realMS atomic.Int64

func (s *simT) init(cfg *proto.Config, out *os.File) {
	s.out = out
	s.detail = cfg.EventDetail
	s.faultCount = map[string]int{}
	s.corruptCnt = map[int]int{}
	if cfg.Faults != nil {
		s.plan = *cfg.Faults
	}
	s.setSched(&cfg.Sched)
	s.metricSamples = []metrics.Sample{
		{Name: "/sched/goroutines/running:goroutines"},
		{Name: "/sched/goroutines/runnable:goroutines"},
		{Name: "/sched/goroutines/not-in-go:goroutines"},
	}
	s.stackBuf = make([]byte, 1<<20)
	s.schedGID = runtime.VerifGoID()
}

func (s *simT) setSched(sc *proto.Sched) {
	if sc == nil {
		return
	}
	s.rng = rand.New(rand.NewPCG(sc.Seed, sc.Seed^0x5851f42d4c957f2d))
	s.choices = sc.Choices
	s.choiceIdx = 0
	s.bias = sc.Bias
	s.prio = map[string]int{}
	s.prioLow = 0
}

// prioOf: random priority per origin (client or background instance), drawn when first seen.
func (s *simT) prioOf(origin string) int {
	if p, ok := s.prio[origin]; ok {
		return p
	}
	p := 1 + s.rng.IntN(1<<20)
	s.prio[origin] = p
	return p
}

func (s *simT) logf(level int, format string, args ...interface{}) {
	if s.detail >= level {
		s.mu.Lock()
		s.events = append(s.events, fmt.Sprintf(format, args...))
		s.mu.Unlock()
	}
}

// origin of the calling goroutine, from its (inherited) profiler-label pointer.
func (s *simT) origin() string {
	p := runtime.VerifLabels()
	if p == nil {
		return "-"
	}
	if o, ok := s.origins.Load(uintptr(p)); ok {
		return o.(string)
	}
	return "-"
}

func (s *simT) registerOrigin(p unsafe.Pointer, origin string) {
	s.origins.Store(uintptr(p), origin)
}

// yield parks the calling goroutine until the scheduler releases it.
func (s *simT) yield(label string) {
	if runtime.VerifGoID() == s.schedGID || s.passthrough.Load() {
		return // the scheduler itself never parks
	}
	p := &parkedG{label: label, origin: s.origin(), ch: make(chan struct{})}
	s.fmu.Lock()
	if s.plan.CrashSide == "held" && s.plan.CrashMatch != "" && strings.Contains(label, s.plan.CrashMatch) {
		// the write the crash is armed at: keep it pending for as long as anything else can run, so that
		// everything that can be acknowledged while it is in flight is acknowledged before the process dies
		p.hold = true
	}
	s.fmu.Unlock()
	s.mu.Lock()
	s.arrivals++
	p.arrival = s.arrivals
	s.parked = append(s.parked, p)
	if s.detail >= 2 {
		s.events = append(s.events, "y "+p.origin+"|"+label)
	}
	s.mu.Unlock()
	<-p.ch
}

// point is called by the store wrappers before delegating: a yield, then the
// fault plan.  A non-nil error is an injected store error.
func (s *simT) point(label string, write bool) error {
	s.yield(label)
	s.fmu.Lock()
	defer s.fmu.Unlock()
	if s.plan.ErrAtOp > 0 && (s.plan.ErrMatch == "" || strings.Contains(label, s.plan.ErrMatch)) {
		s.errCount++
		if s.errCount == s.plan.ErrAtOp {
			s.faultCount["kv-error"]++
			s.logfLocked("fault kv-error at %s", label)
			return fmt.Errorf("simulated store error (injected) at %s", strings.SplitN(label, " ", 2)[0])
		}
	}
	if write {
		s.writes++
		if s.detail >= 1 {
			s.writeLog = append(s.writeLog, label)
		}
		if s.plan.CrashAtWrite > 0 {
			hit := false
			if s.plan.CrashMatch != "" {
				if strings.Contains(label, s.plan.CrashMatch) {
					s.matchCount++
					hit = s.matchCount == s.plan.CrashAtWrite
				}
			} else {
				hit = s.writes == s.plan.CrashAtWrite
			}
			if hit {
				if s.plan.CrashSide == "after" {
					s.pendingAfter = label
				} else if s.plan.CrashSide == "held" {
					s.crash("held-before", label)
				} else {
					s.crash("before", label)
				}
			}
		}
	}
	return nil
}

func (s *simT) logfLocked(format string, args ...interface{}) {
	if s.detail >= 1 {
		s.mu.Lock()
		s.events = append(s.events, fmt.Sprintf(format, args...))
		s.mu.Unlock()
	}
}

// after is called by the wrappers when a mutating call has returned.
func (s *simT) after(label string) {
	s.fmu.Lock()
	if s.pendingAfter != "" && s.pendingAfter == label {
		s.crash("after", label)
	}
	s.fmu.Unlock()
}

// crash terminates the process abruptly: no deferred functions, no store close.
func (s *simT) crash(side, label string) {
	res := proto.Result{OK: true, Crashed: true, CrashLbl: side + " " + label, Writes: s.writes,
		Faults: map[string]int{"crash-" + side + "-write": 1}, Seq: s.seq.Load()}
	s.mu.Lock()
	res.Events = s.events
	res.WriteLog = s.writeLog
	res.Choices = s.outChoices
	res.Widths = s.outWidths
	// requests of the running batch that were already answered when the process died (acknowledged work)
	if s.curResps != nil {
		for _, rp := range *s.curResps {
			if rp.Done {
				res.Resps = append(res.Resps, rp)
			} else {
				res.Resps = append(res.Resps, proto.Resp{Client: rp.Client})
			}
		}
	}
	s.mu.Unlock()
	writeResult(s.out, &res)
	os.Exit(137)
}

func (s *simT) hasCorrupt() bool {
	s.fmu.Lock()
	n := len(s.plan.Corrupt)
	s.fmu.Unlock()
	return n > 0
}

func (s *simT) corruptValue(keyHex string, v []byte) []byte {
	s.fmu.Lock()
	defer s.fmu.Unlock()
	if len(s.plan.Corrupt) == 0 {
		return v
	}
	for i, c := range s.plan.Corrupt {
		if !strings.Contains(keyHex, c.KeyMatch) {
			continue
		}
		s.corruptCnt[i]++
		if c.Nth != 0 && s.corruptCnt[i] != c.Nth {
			continue
		}
		out := append([]byte(nil), v...)
		switch c.Kind {
		case "bit":
			if c.Pos/8 < len(out) {
				out[c.Pos/8] ^= 1 << uint(c.Pos%8)
				s.faultCount["kv-corrupt-bit"]++
			}
		case "byte":
			if c.Pos < len(out) {
				if out[c.Pos] == c.Val {
					out[c.Pos] = c.Val ^ 0xff
				} else {
					out[c.Pos] = c.Val
				}
				s.faultCount["kv-corrupt-byte"]++
			}
		case "trunc":
			if c.Pos < len(out) {
				out = out[:c.Pos]
				s.faultCount["kv-corrupt-trunc"]++
			}
		}
		return out
	}
	return v
}

// ---- quiescence ----

type snapshot struct {
	active   int // goroutines other than the caller that are running/runnable/in syscall
	sleepers int // goroutines in time.Sleep
	lockers  int // goroutines waiting for a sync.Mutex / RWMutex / semaphore
}

func (s *simT) snap() snapshot {
	var n int
	for {
		n = runtime.Stack(s.stackBuf, true)
		if n < len(s.stackBuf) {
			break
		}
		s.stackBuf = make([]byte, 2*len(s.stackBuf))
	}
	buf := s.stackBuf[:n]
	var sn snapshot
	first := true
	for len(buf) > 0 {
		i := bytes.Index(buf, []byte("goroutine "))
		if i < 0 {
			break
		}
		if i > 0 && buf[i-1] != '\n' {
			buf = buf[i+10:]
			continue
		}
		buf = buf[i:]
		eol := bytes.IndexByte(buf, '\n')
		if eol < 0 {
			eol = len(buf)
		}
		line := buf[:eol]
		rest := buf[eol:]
		lb := bytes.IndexByte(line, '[')
		if lb < 0 {
			buf = rest
			continue
		}
		state := line[lb+1:]
		if j := bytes.IndexAny(state, ",]("); j >= 0 {
			state = bytes.TrimSpace(state[:j])
		}
		buf = rest
		if first {
			first = false // the caller itself
			continue
		}
		st := string(state)
		switch st {
		case "chan receive", "chan send", "select", "select (no cases)", "sync.Cond.Wait", "sync.WaitGroup.Wait",
			"IO wait", "finalizer wait", "GC worker (idle)", "GC sweep wait", "GC scavenge wait", "force gc (idle)",
			"synctest.Run", "synctest.Wait", "chan receive (nil chan)", "chan send (nil chan)", "timer goroutine (idle)",
			"cleanup wait":
			// stable: needs a scheduler decision, a clock advance or an external event
		case "sleep":
			if bytes.Contains(line, []byte("synctest bubble")) {
				sn.sleepers++ // only fake-clock sleepers wait for the simulator
			}
		case "sync.Mutex.Lock", "sync.RWMutex.RLock", "sync.RWMutex.Lock":
			sn.lockers++
		case "syscall":
			// the os/signal goroutine sits in a syscall forever
			nl := bytes.IndexByte(rest[1:], '\n')
			if nl > 0 && bytes.Contains(rest[1:nl+1], []byte("os/signal.signal_recv")) {
				continue
			}
			sn.active++
		default:
			// running, runnable, preempted, copystack, semacquire (GC start/mark-done
			// semaphores), GC assist wait, ...: will make progress by itself
			sn.active++
		}
	}
	return sn
}

// waitQuiescent returns when no goroutine other than the caller can make
// progress without a scheduler decision or a clock advance.
func (s *simT) waitQuiescent() snapshot {
	spins := 0
	for {
		runtime.Gosched()
		metrics.Read(s.metricSamples)
		running := s.metricSamples[0].Value.Uint64()
		runnable := s.metricSamples[1].Value.Uint64()
		notInGo := s.metricSamples[2].Value.Uint64()
		if running <= 1 && runnable == 0 && notInGo <= 1 {
			sn := s.snap()
			if sn.active == 0 {
				return sn
			}
		}
		spins++
	}
}

func (s *simT) choose(n int, sorted []*parkedG) int {
	var c int
	if s.choiceIdx < len(s.choices) {
		c = s.choices[s.choiceIdx] % n
		if c < 0 {
			c += n
		}
		// keep the PRNG stream aligned whether or not explicit choices are used
		_ = s.rng.IntN(n)
		if s.bias == 1 {
			_ = s.rng.IntN(4)
		}
		if s.bias == 2 {
			_ = s.rng.IntN(16)
		}
	} else if s.bias == 2 {
		// priority policy (after PCT): always the parked goroutine of the highest-priority origin, so one
		// request can run to completion while another stays parked at its store call; now and then the
		// running origin is demoted below all others
		_ = s.rng.IntN(n)
		demote := s.rng.IntN(16) == 0
		best := -1 << 62
		for i, p := range sorted {
			if pr := s.prioOf(p.origin); pr > best {
				best, c = pr, i
			}
		}
		if demote {
			s.prioLow--
			s.prio[sorted[c].origin] = s.prioLow
		}
	} else {
		c = s.rng.IntN(n)
		if s.bias == 1 {
			stick := s.rng.IntN(4) != 0
			if stick && s.lastOrigin != "" {
				for i, p := range sorted {
					if p.origin == s.lastOrigin {
						c = i
						break
					}
				}
			}
		}
	}
	s.choiceIdx++
	return c
}

const maxAdvanceMS = 600 * 1000 // fake ms of fruitless clock advance before a wedge is declared

// run drives the system until done() holds (and, if drain, nothing is parked
// and no goroutine sleeps).  Returns wedged=true if unfinished work could not
// be made to progress.
func (s *simT) run(done func() bool, drain bool) (wedged bool) {
	advanced := int64(0)
	quantum := int64(1)
	lockWaitStart := int64(0)
	for {
		sn := s.waitQuiescent()
		if !drain && done() {
			// the requests have been answered: whatever background goroutines are
			// parked stay parked until a later command releases them
			return false
		}
		s.mu.Lock()
		n := len(s.parked)
		if s.passthrough.Load() {
			n = 0 // parked goroutines stay parked during a read-only sweep
		}
		if n == 0 {
			s.mu.Unlock()
			finished := done()
			if finished && (!drain || sn.sleepers == 0) {
				return false
			}
			// Nothing to release: let fake time pass for sleepers/timers.
			if sn.lockers > 0 {
				// Fake time cannot advance while a goroutine waits on a mutex.
				// Give the holder real time to finish (it may be waiting for an
				// event outside the bubble); only then call it a wedge.
				if lockWaitStart == 0 {
					lockWaitStart = realMS.Load()
				}
				if realMS.Load()-lockWaitStart < 3000 {
					continue
				}
				return !finished
			}
			lockWaitStart = 0
			if advanced >= maxAdvanceMS {
				return !finished
			}
			if finished && drain && advanced >= 120*1000 {
				return false // perpetual sleepers: treat as settled
			}
			time.Sleep(time.Duration(quantum) * time.Millisecond)
			advanced += quantum
			if quantum < 1000 {
				quantum *= 2
			}
			continue
		}
		advanced, quantum, lockWaitStart = 0, 1, 0
		sorted := make([]*parkedG, 0, n)
		for _, q := range s.parked {
			if !q.hold {
				sorted = append(sorted, q)
			}
		}
		if len(sorted) == 0 {
			sorted = append(sorted, s.parked...)
		}
		n = len(sorted)
		sort.SliceStable(sorted, func(i, j int) bool {
			a, b := sorted[i], sorted[j]
			if a.origin != b.origin {
				return a.origin < b.origin
			}
			if a.label != b.label {
				return a.label < b.label
			}
			return a.arrival < b.arrival
		})
		idx := 0
		if n > 1 {
			idx = s.choose(n, sorted)
			s.outChoices = append(s.outChoices, idx)
			s.outWidths = append(s.outWidths, n)
		}
		p := sorted[idx]
		for i, q := range s.parked {
			if q == p {
				s.parked = append(s.parked[:i], s.parked[i+1:]...)
				break
			}
		}
		sq := s.seq.Add(1)
		s.lastOrigin = p.origin
		if s.detail >= 1 && n > 1 {
			var sb strings.Builder
			fmt.Fprintf(&sb, "d %d %d/%d", sq, idx, n)
			if s.detail >= 2 {
				for _, q := range sorted {
					sb.WriteString(" [" + q.origin + "|" + q.label + "]")
				}
			} else {
				sb.WriteString(" " + p.origin + "|" + firstWord(p.label))
			}
			s.events = append(s.events, sb.String())
		} else if s.detail >= 2 {
			s.events = append(s.events, fmt.Sprintf("r %d %s|%s", sq, p.origin, p.label))
		}
		s.mu.Unlock()
		close(p.ch)
	}
}

func firstWord(s string) string {
	if i := strings.IndexByte(s, ' '); i >= 0 {
		return s[:i]
	}
	return s
}

func (s *simT) parkedCount() int {
	s.mu.Lock()
	defer s.mu.Unlock()
	return len(s.parked)
}

func (s *simT) nowMS() int64 {
	return time.Since(s.fakeEpoch).Milliseconds()
}
