package child

// Wrapping storage engines: "simkv" over the real storage/badger driver and
// "simlog" over the real storage/filelog.  Every call is a scheduler yield, a
// fault point and (optionally) an event-log entry; the work itself is done by
// the real driver.

import (
	"encoding/hex"
	"fmt"
	"hash/fnv"
	"strings"

	"github.com/blang/semver"

	"github.com/janelia-flyem/dvid/dvid"
	"github.com/janelia-flyem/dvid/storage"
)

func valHash(v []byte) string {
	h := fnv.New32a()
	h.Write(v)
	return fmt.Sprintf("%d:%08x", len(v), h.Sum32())
}

// ---- engines ----

type simEngine struct {
	name string // "simkv" | "simlog"
	real string // "badger" | "filelog"
}

func (e simEngine) GetName() string           { return e.name }
func (e simEngine) IsDistributed() bool       { return false }
func (e simEngine) GetSemVer() semver.Version { return semver.Version{Major: 0, Minor: 1} }
func (e simEngine) String() string            { return e.name + " over " + e.real }

func (e simEngine) NewStore(c dvid.StoreConfig) (dvid.Store, bool, error) {
	realEngine := storage.GetEngine(e.real)
	if realEngine == nil {
		return nil, false, fmt.Errorf("real engine %q not compiled in", e.real)
	}
	c2 := dvid.StoreConfig{Config: c.Config, Engine: e.real}
	st, created, err := realEngine.NewStore(c2)
	if err != nil {
		return nil, created, err
	}
	switch e.name {
	case "simkv":
		okv, ok := st.(storage.OrderedKeyValueDB)
		if !ok {
			return nil, false, fmt.Errorf("real store is not an OrderedKeyValueDB")
		}
		return &simKV{OrderedKeyValueDB: okv, real: st, cfg: c}, created, nil
	case "simlog":
		wl, ok1 := st.(storage.WriteLog)
		rl, ok2 := st.(storage.ReadLog)
		if !ok1 || !ok2 {
			return nil, false, fmt.Errorf("real log store lacks WriteLog/ReadLog")
		}
		return &simLog{Store: st, wl: wl, rl: rl, cfg: c}, created, nil
	}
	return nil, false, fmt.Errorf("unknown sim engine %q", e.name)
}

func registerEngines() {
	storage.RegisterEngine(simEngine{"simkv", "badger"})
	storage.RegisterEngine(simEngine{"simlog", "filelog"})
}

// ---- key-value wrapper ----

type simKV struct {
	storage.OrderedKeyValueDB // auto-delegation of everything not overridden
	real                      dvid.Store
	cfg                       dvid.StoreConfig
}

func (s *simKV) String() string { return "simkv(" + s.real.String() + ")" }
func (s *simKV) Equal(c dvid.StoreConfig) bool {
	return s.real.Equal(dvid.StoreConfig{Config: c.Config, Engine: "badger"})
}
func (s *simKV) GetStoreConfig() dvid.StoreConfig { return s.cfg }

func keyLabel(ctx storage.Context, tk storage.TKey) string {
	if ctx == nil {
		return "nilctx/" + hex.EncodeToString(tk)
	}
	return hex.EncodeToString(ctx.ConstructKey(tk))
}

func ctxLabel(ctx storage.Context) string {
	if ctx == nil {
		return "nilctx"
	}
	lo, _ := ctx.KeyRange()
	return hex.EncodeToString(lo)
}

func (s *simKV) corrupt(key string, v []byte) []byte {
	return theSim.corruptValue(key, v)
}

// reads

func (s *simKV) Get(ctx storage.Context, tk storage.TKey) ([]byte, error) {
	k := keyLabel(ctx, tk)
	if err := theSim.point("Get "+k, false); err != nil {
		return nil, err
	}
	v, err := s.OrderedKeyValueDB.Get(ctx, tk)
	if err == nil && v != nil {
		v = s.corrupt(k, v)
	}
	return v, err
}

func (s *simKV) Exists(ctx storage.Context, tk storage.TKey) (bool, error) {
	if err := theSim.point("Exists "+keyLabel(ctx, tk), false); err != nil {
		return false, err
	}
	return s.OrderedKeyValueDB.Exists(ctx, tk)
}

func (s *simKV) GetRange(ctx storage.Context, a, b storage.TKey) ([]*storage.TKeyValue, error) {
	if err := theSim.point("GetRange "+keyLabel(ctx, a)+".."+hex.EncodeToString(b), false); err != nil {
		return nil, err
	}
	kvs, err := s.OrderedKeyValueDB.GetRange(ctx, a, b)
	if err == nil && theSim.hasCorrupt() {
		for _, kv := range kvs {
			if kv != nil && kv.V != nil {
				kv.V = s.corrupt(keyLabel(ctx, kv.K), kv.V)
			}
		}
	}
	return kvs, err
}

func (s *simKV) KeysInRange(ctx storage.Context, a, b storage.TKey) ([]storage.TKey, error) {
	if err := theSim.point("KeysInRange "+keyLabel(ctx, a)+".."+hex.EncodeToString(b), false); err != nil {
		return nil, err
	}
	return s.OrderedKeyValueDB.KeysInRange(ctx, a, b)
}

func (s *simKV) SendKeysInRange(ctx storage.Context, a, b storage.TKey, ch storage.KeyChan) error {
	if err := theSim.point("SendKeysInRange "+keyLabel(ctx, a)+".."+hex.EncodeToString(b), false); err != nil {
		return err
	}
	return s.OrderedKeyValueDB.SendKeysInRange(ctx, a, b, ch)
}

func (s *simKV) ProcessRange(ctx storage.Context, a, b storage.TKey, op *storage.ChunkOp, f storage.ChunkFunc) error {
	if err := theSim.point("ProcessRange "+keyLabel(ctx, a)+".."+hex.EncodeToString(b), false); err != nil {
		return err
	}
	if theSim.hasCorrupt() {
		inner := f
		f = func(c *storage.Chunk) error {
			if c != nil && c.TKeyValue != nil && c.V != nil {
				c.V = s.corrupt(keyLabel(ctx, c.K), c.V)
			}
			return inner(c)
		}
	}
	return s.OrderedKeyValueDB.ProcessRange(ctx, a, b, op, f)
}

func (s *simKV) RawRangeQuery(a, b storage.Key, keysOnly bool, out chan *storage.KeyValue, cancel <-chan struct{}) error {
	if err := theSim.point("RawRangeQuery "+hex.EncodeToString(a)+".."+hex.EncodeToString(b), false); err != nil {
		return err
	}
	return s.OrderedKeyValueDB.RawRangeQuery(a, b, keysOnly, out, cancel)
}

// writes

func (s *simKV) Put(ctx storage.Context, tk storage.TKey, v []byte) error {
	lbl := "Put " + keyLabel(ctx, tk) + " " + valHash(v)
	if err := theSim.point(lbl, true); err != nil {
		return err
	}
	err := s.OrderedKeyValueDB.Put(ctx, tk, v)
	theSim.after(lbl)
	return err
}

func (s *simKV) Delete(ctx storage.Context, tk storage.TKey) error {
	lbl := "Delete " + keyLabel(ctx, tk)
	if err := theSim.point(lbl, true); err != nil {
		return err
	}
	err := s.OrderedKeyValueDB.Delete(ctx, tk)
	theSim.after(lbl)
	return err
}

func (s *simKV) RawPut(k storage.Key, v []byte) error {
	lbl := "RawPut " + hex.EncodeToString(k) + " " + valHash(v)
	if err := theSim.point(lbl, true); err != nil {
		return err
	}
	err := s.OrderedKeyValueDB.RawPut(k, v)
	theSim.after(lbl)
	return err
}

func (s *simKV) RawDelete(k storage.Key) error {
	lbl := "RawDelete " + hex.EncodeToString(k)
	if err := theSim.point(lbl, true); err != nil {
		return err
	}
	err := s.OrderedKeyValueDB.RawDelete(k)
	theSim.after(lbl)
	return err
}

func (s *simKV) PutRange(ctx storage.Context, kvs []storage.TKeyValue) error {
	var sb strings.Builder
	sb.WriteString("PutRange " + ctxLabel(ctx))
	for _, kv := range kvs {
		sb.WriteString(" " + hex.EncodeToString(kv.K) + "=" + valHash(kv.V))
	}
	lbl := sb.String()
	if err := theSim.point(lbl, true); err != nil {
		return err
	}
	err := s.OrderedKeyValueDB.PutRange(ctx, kvs)
	theSim.after(lbl)
	return err
}

func (s *simKV) DeleteRange(ctx storage.Context, a, b storage.TKey) error {
	lbl := "DeleteRange " + keyLabel(ctx, a) + ".." + hex.EncodeToString(b)
	if err := theSim.point(lbl, true); err != nil {
		return err
	}
	err := s.OrderedKeyValueDB.DeleteRange(ctx, a, b)
	theSim.after(lbl)
	return err
}

func (s *simKV) DeleteAll(ctx storage.Context) error {
	lbl := "DeleteAll " + ctxLabel(ctx)
	if err := theSim.point(lbl, true); err != nil {
		return err
	}
	err := s.OrderedKeyValueDB.DeleteAll(ctx)
	theSim.after(lbl)
	return err
}

// KeyValueBatcher

type simBatch struct {
	storage.Batch
	ctx storage.Context
	ops []string
}

func (s *simKV) NewBatch(ctx storage.Context) storage.Batch {
	b, ok := s.real.(storage.KeyValueBatcher)
	if !ok {
		return nil
	}
	return &simBatch{Batch: b.NewBatch(ctx), ctx: ctx}
}

func (b *simBatch) Put(tk storage.TKey, v []byte) {
	b.ops = append(b.ops, "P"+hex.EncodeToString(tk)+"="+valHash(v))
	b.Batch.Put(tk, v)
}

func (b *simBatch) Delete(tk storage.TKey) {
	b.ops = append(b.ops, "D"+hex.EncodeToString(tk))
	b.Batch.Delete(tk)
}

func (b *simBatch) Commit() error {
	lbl := "Commit " + ctxLabel(b.ctx) + " " + strings.Join(b.ops, " ")
	if err := theSim.point(lbl, true); err != nil {
		return err
	}
	err := b.Batch.Commit()
	theSim.after(lbl)
	return err
}

// BlobStore

func (s *simKV) PutBlob(v []byte) (string, error) {
	bs, ok := s.real.(storage.BlobStore)
	if !ok {
		return "", fmt.Errorf("real store is not a BlobStore")
	}
	lbl := "PutBlob " + valHash(v)
	if err := theSim.point(lbl, true); err != nil {
		return "", err
	}
	ref, err := bs.PutBlob(v)
	theSim.after(lbl)
	return ref, err
}

func (s *simKV) GetBlob(ref string) ([]byte, error) {
	bs, ok := s.real.(storage.BlobStore)
	if !ok {
		return nil, fmt.Errorf("real store is not a BlobStore")
	}
	if err := theSim.point("GetBlob "+ref, false); err != nil {
		return nil, err
	}
	return bs.GetBlob(ref)
}

// KeyUsageViewer

func (s *simKV) GetKeyUsage(ranges []storage.KeyRange) ([]storage.KeyUsage, error) {
	kv, ok := s.real.(storage.KeyUsageViewer)
	if !ok {
		return nil, fmt.Errorf("real store is not a KeyUsageViewer")
	}
	if err := theSim.point("GetKeyUsage", false); err != nil {
		return nil, err
	}
	return kv.GetKeyUsage(ranges)
}

// ---- log wrapper ----

type simLog struct {
	dvid.Store
	wl  storage.WriteLog
	rl  storage.ReadLog
	cfg dvid.StoreConfig
}

func (l *simLog) String() string { return "simlog(" + l.Store.String() + ")" }
func (l *simLog) Equal(c dvid.StoreConfig) bool {
	return l.Store.Equal(dvid.StoreConfig{Config: c.Config, Engine: "filelog"})
}
func (l *simLog) GetStoreConfig() dvid.StoreConfig { return l.cfg }

func (l *simLog) Append(dataID, version dvid.UUID, msg storage.LogMessage) error {
	lbl := fmt.Sprintf("LogAppend %s-%s t%d %s", dataID, version, msg.EntryType, valHash(msg.Data))
	if err := theSim.point(lbl, true); err != nil {
		return err
	}
	err := l.wl.Append(dataID, version, msg)
	theSim.after(lbl)
	return err
}

func (l *simLog) CloseLog(dataID, version dvid.UUID) error {
	return l.wl.CloseLog(dataID, version)
}

func (l *simLog) TopicAppend(topic string, msg storage.LogMessage) error {
	lbl := fmt.Sprintf("LogTopicAppend %s t%d %s", topic, msg.EntryType, valHash(msg.Data))
	if err := theSim.point(lbl, true); err != nil {
		return err
	}
	err := l.wl.TopicAppend(topic, msg)
	theSim.after(lbl)
	return err
}

func (l *simLog) TopicClose(topic string) error { return l.wl.TopicClose(topic) }

func (l *simLog) ReadBinary(dataID, version dvid.UUID) ([]byte, error) {
	if err := theSim.point(fmt.Sprintf("LogReadBinary %s-%s", dataID, version), false); err != nil {
		return nil, err
	}
	return l.rl.ReadBinary(dataID, version)
}

func (l *simLog) ReadAll(dataID, version dvid.UUID) ([]storage.LogMessage, error) {
	if err := theSim.point(fmt.Sprintf("LogReadAll %s-%s", dataID, version), false); err != nil {
		return nil, err
	}
	return l.rl.ReadAll(dataID, version)
}

func (l *simLog) StreamAll(dataID, version dvid.UUID, ch chan storage.LogMessage) error {
	if err := theSim.point(fmt.Sprintf("LogStreamAll %s-%s", dataID, version), false); err != nil {
		return err
	}
	return l.rl.StreamAll(dataID, version, ch)
}
