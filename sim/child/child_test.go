package child

// One process == one DVID server lifetime, run entirely inside one
// testing/synctest bubble (fake clock), driven by commands from the parent.

import (
	"bufio"
	"bytes"
	"context"
	"encoding/json"
	"fmt"
	"math/rand/v2"
	"net/http"
	"net/http/httptest"
	"os"
	"path/filepath"
	"runtime"
	"runtime/debug"
	"runtime/pprof"
	"sort"
	"strconv"
	"strings"
	"sync"
	"sync/atomic"
	"testing"
	"testing/synctest"
	"time"

	badgerdb "github.com/dgraph-io/badger/v3"
	"github.com/twinj/uuid"

	"github.com/janelia-flyem/dvid/datastore"
	"github.com/janelia-flyem/dvid/dvid"
	"github.com/janelia-flyem/dvid/server"
	"github.com/janelia-flyem/dvid/storage"

	// the compiled data types, as in cmd/dvid/main.go
	_ "github.com/janelia-flyem/dvid/datatype/annotation"
	_ "github.com/janelia-flyem/dvid/datatype/googlevoxels"
	_ "github.com/janelia-flyem/dvid/datatype/imageblk"
	_ "github.com/janelia-flyem/dvid/datatype/imagetile"
	_ "github.com/janelia-flyem/dvid/datatype/keyvalue"
	_ "github.com/janelia-flyem/dvid/datatype/labelarray"
	_ "github.com/janelia-flyem/dvid/datatype/labelblk"
	_ "github.com/janelia-flyem/dvid/datatype/labelmap"
	_ "github.com/janelia-flyem/dvid/datatype/labelsz"
	_ "github.com/janelia-flyem/dvid/datatype/labelvol"
	_ "github.com/janelia-flyem/dvid/datatype/multichan16"
	_ "github.com/janelia-flyem/dvid/datatype/neuronjson"
	_ "github.com/janelia-flyem/dvid/datatype/roi"
	_ "github.com/janelia-flyem/dvid/datatype/tarsupervoxels"

	_ "github.com/janelia-flyem/dvid/storage/badger"
	_ "github.com/janelia-flyem/dvid/storage/filelog"

	"verif/sim/proto"
)

var (
	outMu sync.Mutex

	// helper outside the bubble that receives server.Shutdown's completion signal
	awaitShutdownStart = make(chan struct{})
	shutdownSignalled  atomic.Bool
)

func writeResult(f *os.File, r *proto.Result) {
	outMu.Lock()
	defer outMu.Unlock()
	b, err := json.Marshal(r)
	if err != nil {
		b = []byte(fmt.Sprintf(`{"ok":false,"err":%q}`, "marshal: "+err.Error()))
	}
	b = append(b, '\n')
	f.Write(b)
}

type detRand struct {
	mu  sync.Mutex
	rng *rand.Rand
}

func (d *detRand) Read(b []byte) (int, error) {
	d.mu.Lock()
	defer d.mu.Unlock()
	for i := range b {
		b[i] = byte(d.rng.UintN(256))
	}
	return len(b), nil
}

func TestChild(t *testing.T) {
	cfgPath := os.Getenv("VERIF_CHILD_CONFIG")
	if cfgPath == "" {
		t.Skip("not started by simdrv")
	}
	raw, err := os.ReadFile(cfgPath)
	if err != nil {
		t.Fatalf("config: %v", err)
	}
	var cfg proto.Config
	if err := json.Unmarshal(raw, &cfg); err != nil {
		t.Fatalf("config: %v", err)
	}
	in := os.NewFile(3, "cmd-in")
	out := os.NewFile(4, "res-out")
	if in == nil || out == nil {
		t.Fatalf("fd 3/4 not available")
	}
	if !cfg.Verbose {
		dvid.SetLogMode(dvid.WarningMode)
	}
	registerEngines()
	// every Badger transaction start is a yield point (see overlay/gen.py)
	badgerdb.VerifYield = func(kind string) { theSim.yield("badger." + kind) }
	if cfg.LockYield {
		// every mutex acquisition made directly from DVID's own sources is a yield point too (see overlay/gen.py)
		sync.VerifLockHook = func(kind string) {
			_, file, line, ok := runtime.Caller(2)
			if !ok {
				return
			}
			i := strings.Index(file, "/repo/")
			if i < 0 {
				return
			}
			theSim.yield(kind + " " + file[i+6:] + ":" + strconv.Itoa(line))
		}
	}

	// Deterministic UUIDs: the generator's random source is a seam of the
	// twinj/uuid package.  Seeded per lifetime so UUIDs never repeat.
	dr := &detRand{rng: rand.New(rand.NewPCG(cfg.Sched.Seed^0xabcdef, uint64(len(raw))^cfg.Sched.Seed<<1))}
	if v := os.Getenv("VERIF_UUID_SEED"); v != "" {
		var x uint64
		fmt.Sscan(v, &x)
		dr = &detRand{rng: rand.New(rand.NewPCG(x, x^0x9e3779b97f4a7c15))}
	}
	uuid.RegisterGenerator(&uuid.GeneratorConfig{Random: dr.Read})

	go func() {
		<-awaitShutdownStart
		server.VerifAwaitShutdown()
		shutdownSignalled.Store(true)
	}()

	go func() {
		t0 := time.Now()
		for {
			time.Sleep(time.Millisecond)
			realMS.Store(time.Since(t0).Milliseconds())
		}
	}()

	debug.SetGCPercent(400)

	synctest.Test(t, func(t *testing.T) {
		lifetime(&cfg, in, out)
	})
}

func tomlFor(cfg *proto.Config) string {
	var sb strings.Builder
	q := func(s string) string { b, _ := json.Marshal(s); return string(b) }
	sb.WriteString("[server]\nhost = \"simhost\"\nhttpAddress = \":0\"\nrpcAddress = \":0\"\n")
	fmt.Fprintf(&sb, "shutdownDelay = %d\n", cfg.ShutdownDelay)
	if cfg.RWMode != "" {
		fmt.Fprintf(&sb, "rwmode = %s\n", q(cfg.RWMode))
	}
	sb.WriteString("instance_id_gen = \"sequential\"\n")
	fmt.Fprintf(&sb, "instance_id_start = %d\n", cfg.InstanceIDStart)
	fmt.Fprintf(&sb, "min_mutation_id_start = %d\n", cfg.MutIDStart)
	if cfg.AllowSplit {
		sb.WriteString("allowLabelmapSplit = true\n")
	}
	if cfg.MutLogJSON {
		fmt.Fprintf(&sb, "\n[mutations]\njsonstore = %s\n", q(filepath.Join(cfg.Dir, "mutjson")))
	}
	sb.WriteString("\n[store]\n  [store.main]\n  engine = \"simkv\"\n")
	fmt.Fprintf(&sb, "  path = %s\n", q(filepath.Join(cfg.Dir, "kv")))
	if cfg.SecondStore {
		sb.WriteString("  [store.second]\n  engine = \"simkv\"\n")
		fmt.Fprintf(&sb, "  path = %s\n", q(filepath.Join(cfg.Dir, "kv2")))
	}
	if !cfg.NoLogStore {
		sb.WriteString("  [store.mutlog]\n  engine = \"simlog\"\n")
		fmt.Fprintf(&sb, "  path = %s\n", q(filepath.Join(cfg.Dir, "log")))
	}
	sb.WriteString("\n[backend]\n  [backend.default]\n  store = \"main\"\n")
	if !cfg.NoLogStore {
		sb.WriteString("  log = \"mutlog\"\n")
	}
	sb.WriteString("  [backend.metadata]\n  store = \"main\"\n")
	var bks []string
	for k := range cfg.Backends {
		bks = append(bks, k)
	}
	sort.Strings(bks)
	for _, k := range bks {
		fmt.Fprintf(&sb, "  [backend.%s]\n  store = %s\n", q(k), q(cfg.Backends[k]))
	}
	if len(cfg.Caches) > 0 {
		sb.WriteString("\n[cache]\n")
		for id, mb := range cfg.Caches {
			fmt.Fprintf(&sb, "  [cache.%s]\n  size = %d\n", id, mb)
		}
	}
	return sb.String()
}

// bootDVID performs the start-up sequence of cmd/dvid/main.go:DoServe up to,
// but not including, the socket listeners.
func bootDVID(cfg *proto.Config) error {
	if err := os.MkdirAll(cfg.Dir, 0755); err != nil {
		return err
	}
	tomlPath := filepath.Join(cfg.Dir, "config.toml")
	if err := os.WriteFile(tomlPath, []byte(tomlFor(cfg)), 0644); err != nil {
		return err
	}
	if cfg.AdminToken != "" {
		server.SetAdminToken(cfg.AdminToken)
	}
	if err := server.LoadConfig(tomlPath); err != nil {
		return fmt.Errorf("LoadConfig: %v", err)
	}
	if err := server.Initialize(); err != nil {
		return fmt.Errorf("server.Initialize: %v", err)
	}
	backend, err := server.InitBackend()
	if err != nil {
		return fmt.Errorf("InitBackend: %v", err)
	}
	datatypes := make(map[dvid.TypeString]struct{})
	for _, t := range datastore.Compiled {
		datatypes[t.GetTypeName()] = struct{}{}
	}
	initMetadata, err := storage.Initialize(dvid.Config{}, backend, datatypes)
	if err != nil {
		return fmt.Errorf("storage.Initialize: %v", err)
	}
	if err := datastore.Initialize(initMetadata, server.DatastoreConfig()); err != nil {
		return fmt.Errorf("datastore.Initialize: %v", err)
	}
	// first request sets up the routes (not safe to do concurrently)
	w := httptest.NewRecorder()
	r, _ := http.NewRequest("GET", "http://simhost/api/server/types", nil)
	server.ServeSingleHTTP(w, r)
	return nil
}

type task struct {
	done atomic.Bool
}

func (s *simT) spawn(origin string, startLabel string, fn func()) *task {
	tk := &task{}
	go func() {
		ctx := pprof.WithLabels(context.Background(), pprof.Labels("origin", origin))
		pprof.SetGoroutineLabels(ctx)
		s.registerOrigin(runtime.VerifLabels(), origin)
		if startLabel != "" {
			s.yield(startLabel)
		}
		fn()
		tk.done.Store(true)
	}()
	return tk
}

func lifetime(cfg *proto.Config, in, out *os.File) {
	s := theSim
	s.init(cfg, out)
	s.fakeEpoch = time.Now()

	var bootErr error
	bt := s.spawn("boot", "", func() { bootErr = bootDVID(cfg) })
	wedged := s.run(func() bool { return bt.done.Load() }, true)
	res := s.collect()
	res.OK = bootErr == nil && !wedged
	res.Wedged = wedged
	if bootErr != nil {
		res.Err = "boot: " + bootErr.Error()
	}
	if wedged {
		res.Stacks = allStacks()
	}
	writeResult(out, res)
	if !res.OK {
		os.Exit(3)
	}

	rd := bufio.NewReaderSize(in, 1<<20)
	for {
		line, err := rd.ReadBytes('\n')
		if err != nil {
			os.Exit(4) // parent went away
		}
		var cmd proto.Cmd
		if err := json.Unmarshal(line, &cmd); err != nil {
			writeResult(out, &proto.Result{Err: "bad command: " + err.Error()})
			continue
		}
		if cmd.Sched != nil {
			s.setSched(cmd.Sched)
		}
		if cmd.Faults != nil {
			s.fmu.Lock()
			s.plan = *cmd.Faults
			s.errCount = 0
			s.matchCount = 0
			s.corruptCnt = map[int]int{}
			// CrashAtWrite in a later plan counts from now
			if s.plan.CrashAtWrite > 0 && s.plan.CrashMatch == "" {
				s.plan.CrashAtWrite += s.writes
			}
			s.fmu.Unlock()
		}
		switch cmd.Op {
		case "batch":
			doBatch(s, &cmd, out)
		case "barrier":
			wedged := s.run(func() bool { return true }, true)
			res := s.collect()
			res.OK = !wedged
			res.Wedged = wedged
			writeResult(out, res)
		case "sleep":
			time.Sleep(time.Duration(cmd.MS) * time.Millisecond)
			s.run(func() bool { return true }, false)
			res := s.collect()
			res.OK = true
			writeResult(out, res)
		case "faults":
			res := s.collect()
			res.OK = true
			writeResult(out, res)
		case "stacks":
			res := s.collect()
			res.OK = true
			res.Stacks = allStacks()
			writeResult(out, res)
		case "shutdown":
			awaitShutdownStart <- struct{}{}
			tk := s.spawn("shutdown", "", func() { server.Shutdown() })
			wedged := s.run(func() bool { return tk.done.Load() }, false)
			res := s.collect()
			res.OK = !wedged && shutdownSignalled.Load()
			res.Wedged = wedged
			if wedged {
				res.Stacks = allStacks()
			}
			writeResult(out, res)
			os.Exit(0)
		case "kill":
			res := s.collect()
			res.OK = true
			res.Faults = map[string]int{"restart-kill-idle": 1}
			writeResult(out, res)
			os.Exit(137)
		default:
			writeResult(out, &proto.Result{Err: "unknown op " + cmd.Op})
		}
	}
}

func (s *simT) collect() *proto.Result {
	s.mu.Lock()
	defer s.mu.Unlock()
	s.fmu.Lock()
	defer s.fmu.Unlock()
	r := &proto.Result{
		Events:   s.events,
		Choices:  s.outChoices,
		Widths:   s.outWidths,
		NowMS:    s.nowMS(),
		Parked:   len(s.parked),
		Writes:   s.writes,
		WriteLog: s.writeLog,
		Faults:   s.faultCount,
		Seq:      s.seq.Load(),
	}
	s.events = nil
	s.outChoices = nil
	s.outWidths = nil
	s.writeLog = nil
	s.faultCount = map[string]int{}
	return r
}

func allStacks() string {
	buf := make([]byte, 4<<20)
	n := runtime.Stack(buf, true)
	return string(buf[:n])
}

func doBatch(s *simT, cmd *proto.Cmd, out *os.File) {
	resps := make([]proto.Resp, len(cmd.Reqs))
	if cmd.Mode == "seqfast" {
		// read-only sweep by one client: no scheduling decisions are taken at all
		s.passthrough.Store(true)
		tk := s.spawn("c0", "", func() {
			for i := range cmd.Reqs {
				resps[i].Client = cmd.Reqs[i].Client
				resps[i].Invoke = s.seq.Add(1)
				execReq(&cmd.Reqs[i], &resps[i])
				resps[i].Return = s.seq.Add(1)
				resps[i].Done = true
			}
		})
		wedged := s.run(func() bool { return tk.done.Load() }, false)
		s.passthrough.Store(false)
		res := s.collect()
		res.OK = !wedged
		res.Wedged = wedged
		if wedged {
			res.Stacks = allStacks()
			for i := range resps {
				if !resps[i].Done {
					resps[i] = proto.Resp{Client: resps[i].Client}
				}
			}
		}
		res.Resps = resps
		writeResult(out, res)
		return
	}
	if cmd.Mode == "seq" {
		// one client issues the requests one after another; background work is
		// drained after each request and at the end
		tk := s.spawn("c0", "", func() {
			for i := range cmd.Reqs {
				resps[i].Client = cmd.Reqs[i].Client
				resps[i].Invoke = s.seq.Add(1)
				execReq(&cmd.Reqs[i], &resps[i])
				resps[i].Return = s.seq.Add(1)
				resps[i].Done = true
			}
		})
		wedged := s.run(func() bool { return tk.done.Load() }, true)
		res := s.collect()
		res.OK = !wedged
		res.Wedged = wedged
		if wedged {
			res.Stacks = allStacks()
			for i := range resps {
				if !resps[i].Done {
					resps[i] = proto.Resp{Client: resps[i].Client}
				}
			}
		}
		res.Resps = resps
		writeResult(out, res)
		return
	}
	s.mu.Lock()
	s.curResps = &resps
	s.mu.Unlock()
	defer func() {
		s.mu.Lock()
		s.curResps = nil
		s.mu.Unlock()
	}()
	tasks := make([]*task, len(cmd.Reqs))
	for i := range cmd.Reqs {
		i := i
		req := &cmd.Reqs[i]
		resps[i].Client = req.Client
		tasks[i] = s.spawn(req.Client, "start "+req.Client, func() {
			resps[i].Invoke = s.seq.Add(1)
			execReq(req, &resps[i])
			resps[i].Return = s.seq.Add(1)
			resps[i].Done = true
		})
	}
	allDone := func() bool {
		for _, tk := range tasks {
			if !tk.done.Load() {
				return false
			}
		}
		return true
	}
	wedged := s.run(allDone, cmd.Mode == "barrier")
	res := s.collect()
	res.OK = !wedged
	res.Wedged = wedged
	if wedged {
		res.Stacks = allStacks()
		for i := range resps {
			if !tasks[i].done.Load() {
				resps[i] = proto.Resp{Client: resps[i].Client, Invoke: resps[i].Invoke} // racing goroutine still owns the rest
			}
		}
	}
	res.Resps = resps
	writeResult(out, res)
}

func execReq(req *proto.Req, resp *proto.Resp) {
	switch req.Kind {
	case "http", "":
		r, err := http.NewRequest(req.Method, "http://simhost"+req.URL, bytes.NewReader(req.Body))
		if err != nil {
			resp.Err = "NewRequest: " + err.Error()
			resp.Status = -1
			return
		}
		w := httptest.NewRecorder()
		server.ServeSingleHTTP(w, r)
		resp.Status = w.Code
		resp.Body = w.Body.Bytes()
		if len(resp.Body) > 64<<20 {
			resp.BodyLen = len(resp.Body)
			resp.Body = append([]byte(nil), resp.Body[:1<<20]...)
		}
	case "rpc":
		reply, err := server.VerifHandleCommand(&datastore.Request{Command: dvid.Command(req.RPC), Input: req.Body})
		if err != nil {
			resp.Status = 500
			resp.Err = err.Error()
			return
		}
		resp.Status = 200
		if reply != nil {
			resp.Body = []byte(reply.Text)
		}
	case "store":
		execStore(req.Store, resp)
	case "probe":
		execProbe(req, resp)
	default:
		resp.Status = -1
		resp.Err = "unknown request kind " + req.Kind
	}
}
