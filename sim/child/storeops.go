package child

// Store-level calls issued by the harness through the same wrapped store the
// HTTP handlers use (observation points of C05/C06: storage.OrderedKeyValueDB
// range methods vs Get per key, RawRangeQuery order).

import (
	"encoding/hex"
	"encoding/json"
	"fmt"
	"strings"
	"sync"

	"github.com/janelia-flyem/dvid/datastore"
	"github.com/janelia-flyem/dvid/datatype/keyvalue"
	"github.com/janelia-flyem/dvid/dvid"
	"github.com/janelia-flyem/dvid/storage"

	"verif/sim/proto"
)

func execStore(op *proto.StoreOp, resp *proto.Resp) {
	fail := func(err error) {
		resp.Status = 500
		resp.Err = err.Error()
	}
	if op == nil {
		fail(fmt.Errorf("no store op"))
		return
	}
	uuid, v, err := datastore.MatchingUUID(op.UUID)
	if err != nil {
		fail(err)
		return
	}
	data, err := datastore.GetDataByUUIDName(uuid, dvid.InstanceName(op.Data))
	if err != nil {
		fail(err)
		return
	}
	db, err := datastore.GetOrderedKeyValueDB(data)
	if err != nil {
		fail(err)
		return
	}
	ctx := datastore.NewVersionedCtx(data, v)
	beg, _ := keyvalue.NewTKey(op.KeyBeg)
	end, _ := keyvalue.NewTKey(op.KeyEnd)
	dec := func(tk storage.TKey) string {
		s, err := keyvalue.DecodeTKey(tk)
		if err != nil {
			return "!" + hex.EncodeToString(tk)
		}
		return s
	}
	resp.Status = 200
	switch op.Op {
	case "get":
		val, err := db.Get(ctx, beg)
		if err != nil {
			fail(err)
			return
		}
		if val == nil {
			resp.Status = 404
			return
		}
		resp.Values = [][]byte{val}
	case "put":
		if err := db.Put(ctx, beg, op.Value); err != nil {
			fail(err)
		}
	case "delete":
		if err := db.Delete(ctx, beg); err != nil {
			fail(err)
		}
	case "getrange":
		kvs, err := db.GetRange(ctx, beg, end)
		if err != nil {
			fail(err)
			return
		}
		for _, kv := range kvs {
			resp.Keys = append(resp.Keys, dec(kv.K))
			resp.Values = append(resp.Values, kv.V)
		}
	case "keysinrange":
		tks, err := db.KeysInRange(ctx, beg, end)
		if err != nil {
			fail(err)
			return
		}
		for _, tk := range tks {
			resp.Keys = append(resp.Keys, dec(tk))
		}
	case "sendkeysinrange":
		ch := make(storage.KeyChan)
		var wg sync.WaitGroup
		wg.Add(1)
		go func() {
			defer wg.Done()
			for k := range ch {
				if k == nil {
					return
				}
				tk, err := storage.TKeyFromKey(k)
				if err != nil {
					resp.Keys = append(resp.Keys, "!"+hex.EncodeToString(k))
					continue
				}
				resp.Keys = append(resp.Keys, dec(tk))
			}
		}()
		err := db.SendKeysInRange(ctx, beg, end, ch)
		close(ch)
		wg.Wait()
		if err != nil {
			fail(err)
		}
	case "processrange":
		var mu sync.Mutex
		err := db.ProcessRange(ctx, beg, end, &storage.ChunkOp{}, func(c *storage.Chunk) error {
			if c == nil || c.TKeyValue == nil {
				return nil
			}
			mu.Lock()
			resp.Keys = append(resp.Keys, dec(c.K))
			resp.Values = append(resp.Values, append([]byte(nil), c.V...))
			mu.Unlock()
			return nil
		})
		if err != nil {
			fail(err)
		}
	case "deleterange":
		if err := db.DeleteRange(ctx, beg, end); err != nil {
			fail(err)
		}
	case "rawrange":
		// all raw keys of the instance, as hex, in store order
		lo, hi := storage.DataInstanceKeyRange(data.InstanceID())
		out := make(chan *storage.KeyValue)
		var wg sync.WaitGroup
		wg.Add(1)
		go func() {
			defer wg.Done()
			for kv := range out {
				if kv == nil || kv.K == nil {
					return
				}
				resp.Keys = append(resp.Keys, hex.EncodeToString(kv.K))
			}
		}()
		err := db.RawRangeQuery(lo, hi, true, out, nil)
		close(out)
		wg.Wait()
		if err != nil {
			fail(err)
		}
	case "rawdump":
		// all raw key-value pairs of the instance (keys as hex, stored bytes as they are), in store order
		lo, hi := storage.DataInstanceKeyRange(data.InstanceID())
		out := make(chan *storage.KeyValue)
		var wg sync.WaitGroup
		wg.Add(1)
		go func() {
			defer wg.Done()
			for kv := range out {
				if kv == nil || kv.K == nil {
					return
				}
				resp.Keys = append(resp.Keys, hex.EncodeToString(kv.K))
				resp.Values = append(resp.Values, append([]byte(nil), kv.V...))
			}
		}()
		err := db.RawRangeQuery(lo, hi, false, out, nil)
		close(out)
		wg.Wait()
		if err != nil {
			fail(err)
		}
	default:
		fail(fmt.Errorf("unknown store op %q", op.Op))
	}
}

// execProbe reports in-process state that has no HTTP endpoint.
// URL "updating/<uuid>/<name>": the instance's idle flags, as downres.BlockOnUpdating polls them.
func execProbe(req *proto.Req, resp *proto.Resp) {
	parts := strings.Split(req.URL, "/")
	if len(parts) == 3 && parts[0] == "updating" {
		uuid, _, err := datastore.MatchingUUID(parts[1])
		if err != nil {
			resp.Status, resp.Err = 400, err.Error()
			return
		}
		d, err := datastore.GetDataByUUIDName(uuid, dvid.InstanceName(parts[2]))
		if err != nil {
			resp.Status, resp.Err = 400, err.Error()
			return
		}
		type updater interface{ Updating() bool }
		type scaleUpdater interface{ AnyScaleUpdating() bool }
		type syncer interface{ SyncPending() bool }
		out := map[string]bool{}
		if u, ok := d.(updater); ok {
			out["updating"] = u.Updating()
		}
		if u, ok := d.(scaleUpdater); ok {
			out["anyscale"] = u.AnyScaleUpdating()
		}
		if u, ok := d.(syncer); ok {
			out["syncpending"] = u.SyncPending()
		}
		b, _ := json.Marshal(out)
		resp.Status, resp.Body = 200, b
		return
	}
	resp.Status, resp.Err = 400, "unknown probe "+req.URL
}
