// Package proto defines the messages exchanged between the simulator parent
// (simdrv) and one server-lifetime child process.  It imports no DVID code.
package proto

// Config is written by the parent to a JSON file whose path is passed to the
// child in env VERIF_CHILD_CONFIG.  One child process == one server lifetime.
type Config struct {
	Dir             string            `json:"dir"`              // root of the durable state (survives lifetimes)
	RWMode          string            `json:"rwmode,omitempty"` // "", "readonly", "fullwrite"
	AdminToken      string            `json:"admintoken,omitempty"`
	InstanceIDStart uint32            `json:"iid_start,omitempty"`
	MutIDStart      uint64            `json:"mutid_start,omitempty"`
	ShutdownDelay   int               `json:"shutdown_delay"`
	AllowSplit      bool              `json:"allow_split,omitempty"`
	Caches          map[string]int    `json:"caches,omitempty"` // MB per cache id
	SecondStore     bool              `json:"second_store,omitempty"`
	Backends        map[string]string `json:"backends,omitempty"` // "<instance name>:<uuid>" -> store alias ("second")
	NoLogStore      bool              `json:"no_log_store,omitempty"`
	MutLogJSON      bool              `json:"mutlog_json,omitempty"` // enable [mutations] jsonstore
	LockYield       bool              `json:"lock_yield,omitempty"`  // park request goroutines before every mutex acquisition made from DVID's own sources
	Verbose         bool              `json:"verbose,omitempty"`
	Faults          *FaultPlan        `json:"faults,omitempty"` // active from the first store call of start-up
	Sched           Sched             `json:"sched"`            // schedule source for the boot phase
	EventDetail     int               `json:"event_detail"`     // 0 none, 1 decisions+faults, 2 every yield
}

// Sched selects the source of scheduling decisions: explicit Choices first,
// then a PCG stream seeded with Seed.
type Sched struct {
	Seed    uint64 `json:"seed"`
	Choices []int  `json:"choices,omitempty"`
	// Bias: 0 uniform; 1 prefer the goroutine released last ("run to
	// completion") with probability 3/4 -- gives long uninterrupted stretches
	// with rare preemptions, which is where lost-update windows live.
	Bias int `json:"bias,omitempty"`
}

// FaultPlan describes faults injected by the wrapping store engines.
type FaultPlan struct {
	// Crash: os.Exit(137) before or after the N-th mutating store/log call of
	// this lifetime (1-based; 0 = never).
	CrashAtWrite int    `json:"crash_at_write,omitempty"`
	CrashSide    string `json:"crash_side,omitempty"` // "before" | "after" | "held" (with CrashMatch: the matched write stays pending while anything else can run, then the process dies before it)
	// CrashMatch: if set, the crash fires at the CrashAtWrite-th mutating call
	// whose label contains this substring instead of counting all writes.
	CrashMatch string `json:"crash_match,omitempty"`

	// ErrAtOp: the N-th store call (reads and writes) whose label contains
	// ErrMatch returns an injected error instead of being executed.
	ErrAtOp  int    `json:"err_at_op,omitempty"`
	ErrMatch string `json:"err_match,omitempty"`

	// Corrupt: alterations applied to values returned by reads.
	Corrupt []Corrupt `json:"corrupt,omitempty"`
}

// Corrupt alters the value returned by a read (Get/GetRange/ProcessRange/...)
// of any key whose hex form contains KeyMatch.
type Corrupt struct {
	KeyMatch string `json:"key_match"`
	Kind     string `json:"kind"` // "bit" (flip bit Pos), "byte" (set byte Pos/8.. to Val), "trunc" (keep Pos bytes)
	Pos      int    `json:"pos"`
	Val      byte   `json:"val,omitempty"`
	Nth      int    `json:"nth,omitempty"` // only the Nth matching read (0 = every)
}

// Cmd is one command from parent to child.
type Cmd struct {
	Op     string     `json:"op"` // batch | barrier | sleep | shutdown | kill | faults | stacks
	Reqs   []Req      `json:"reqs,omitempty"`
	Mode   string     `json:"mode,omitempty"` // batch: "return" (default) or "barrier"
	Sched  *Sched     `json:"sched,omitempty"`
	MS     int64      `json:"ms,omitempty"` // sleep: fake milliseconds
	Faults *FaultPlan `json:"faults,omitempty"`
}

// Req is one client operation.
type Req struct {
	Client string   `json:"client"`
	Kind   string   `json:"kind"` // http | rpc | store | probe
	Method string   `json:"method,omitempty"`
	URL    string   `json:"url,omitempty"`
	Body   []byte   `json:"body,omitempty"`
	RPC    []string `json:"rpc,omitempty"`
	Store  *StoreOp `json:"store,omitempty"`
}

// StoreOp is a store-level call issued by the harness through the same wrapped
// store the handlers use (C05/C06 store-level observation points).
type StoreOp struct {
	Op      string `json:"op"`   // get | getrange | keysinrange | sendkeysinrange | processrange | deleterange | rawrange | put | delete
	Data    string `json:"data"` // data instance name
	UUID    string `json:"uuid"` // version
	KeyBeg  string `json:"beg"`  // keyvalue-type string key (converted with keyvalue.NewTKey)
	KeyEnd  string `json:"end"`
	Value   []byte `json:"value,omitempty"`
	RawInst bool   `json:"raw_inst,omitempty"` // rawrange over the whole instance
}

// Resp is the outcome of one Req.
type Resp struct {
	Client string `json:"client"`
	Status int    `json:"status"`
	Body   []byte `json:"body,omitempty"`
	// BodyLen is set when the answer was longer than the transport cap (64 MB): Body then holds its first MB only.
	BodyLen int    `json:"body_len,omitempty"`
	Err     string `json:"err,omitempty"`
	Invoke  uint64 `json:"invoke"`
	Return  uint64 `json:"return"`
	Done    bool   `json:"done"`
	// Store-level results
	Keys   []string `json:"keys,omitempty"`
	Values [][]byte `json:"values,omitempty"`
}

// Result is the child's answer to one Cmd (and to the implicit boot).
type Result struct {
	OK       bool           `json:"ok"`
	Err      string         `json:"err,omitempty"`
	Resps    []Resp         `json:"resps,omitempty"`
	Events   []string       `json:"events,omitempty"`
	Choices  []int          `json:"choices,omitempty"` // decisions taken (index into sorted parked set)
	Widths   []int          `json:"widths,omitempty"`  // size of parked set at each decision
	NowMS    int64          `json:"now_ms"`            // fake clock, ms since bubble epoch
	Parked   int            `json:"parked"`            // goroutines still parked when the command ended
	Wedged   bool           `json:"wedged,omitempty"`  // unfinished requests, nothing parked, clock advance did not help
	Crashed  bool           `json:"crashed,omitempty"` // planned crash fired (last message of the lifetime)
	CrashLbl string         `json:"crash_label,omitempty"`
	Writes   int            `json:"writes"`              // mutating store/log calls so far in this lifetime
	WriteLog []string       `json:"write_log,omitempty"` // labels of mutating calls during this command
	Faults   map[string]int `json:"faults,omitempty"`    // fault kinds that actually fired during this command
	Seq      uint64         `json:"seq"`
	Stacks   string         `json:"stacks,omitempty"`
}
