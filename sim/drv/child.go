// Package drv is the simulator parent: it starts server-lifetime child
// processes, sends them commands, and hosts the common run/shrink/evidence
// machinery.  It links no DVID code.
package drv

import (
	"bufio"
	"encoding/json"
	"errors"
	"fmt"
	"io"
	"os"
	"os/exec"
	"path/filepath"
	"strconv"
	"strings"
	"time"

	"verif/sim/proto"
)

var (
	// ErrInfra marks harness trouble (hang past the watchdog, protocol error):
	// exit 2, never a VIOLATION.
	ErrInfra = errors.New("infrastructure error")
	// ErrPlannedCrash: the lifetime ended by the crash the fault plan asked for.
	ErrPlannedCrash = errors.New("planned crash fired")
	// ErrChildDied: the child process ended without a planned crash message.
	ErrChildDied = errors.New("child process died unexpectedly")
)

// ChildBinary is the path of the built child test binary.
var ChildBinary = func() string {
	if p := os.Getenv("VERIF_CHILD_BIN"); p != "" {
		return p // a frozen copy of the build (long background runs while the tree is being edited)
	}
	return "/verif/.build/child.test"
}()

// Watchdog is the real-time limit for one command.
var Watchdog = 120 * time.Second

type Child struct {
	cmd        *exec.Cmd
	in         io.WriteCloser
	outR       *os.File
	out        *bufio.Reader
	StderrPath string
	exited     bool
	ExitCode   int
	Cfg        proto.Config
}

type ChildOpts struct {
	MapSeed    uint64 // VERIF_MAPSEED (0 = off)
	UUIDSeed   uint64
	GoMaxProcs int
	Tag        string // file name tag for stderr capture
}

// StartChild launches one server lifetime and waits for the boot result.
func StartChild(cfg proto.Config, o ChildOpts) (*Child, *proto.Result, error) {
	if err := os.MkdirAll(cfg.Dir, 0755); err != nil {
		return nil, nil, err
	}
	cfgPath := filepath.Join(cfg.Dir, "child-config-"+o.Tag+".json")
	raw, _ := json.Marshal(cfg)
	if err := os.WriteFile(cfgPath, raw, 0644); err != nil {
		return nil, nil, err
	}
	cmdR, cmdW, err := os.Pipe()
	if err != nil {
		return nil, nil, err
	}
	resR, resW, err := os.Pipe()
	if err != nil {
		return nil, nil, err
	}
	c := &Child{Cfg: cfg}
	c.StderrPath = filepath.Join(cfg.Dir, "stderr-"+o.Tag+".log")
	errF, err := os.Create(c.StderrPath)
	if err != nil {
		return nil, nil, err
	}
	cmd := exec.Command(ChildBinary, "-test.run=^TestChild$", "-test.timeout=0", "-test.count=1")
	cmd.ExtraFiles = []*os.File{cmdR, resW}
	cmd.Stdout = errF
	cmd.Stderr = errF
	gmp := o.GoMaxProcs
	if gmp == 0 {
		gmp = 2
	}
	mapseed := "off"
	if o.MapSeed != 0 {
		mapseed = strconv.FormatUint(o.MapSeed, 10)
	}
	cmd.Env = append(os.Environ(),
		"VERIF_CHILD_CONFIG="+cfgPath,
		"VERIF_MAPSEED="+mapseed,
		"VERIF_UUID_SEED="+strconv.FormatUint(o.UUIDSeed, 10),
		"GOMAXPROCS="+strconv.Itoa(gmp),
		"GOTRACEBACK=all",
		"TMPDIR="+cfg.Dir,
	)
	cmd.Dir = cfg.Dir
	if err := cmd.Start(); err != nil {
		return nil, nil, fmt.Errorf("%w: start child: %v", ErrInfra, err)
	}
	cmdR.Close()
	resW.Close()
	errF.Close()
	c.cmd = cmd
	c.in = cmdW
	c.outR = resR
	c.out = bufio.NewReaderSize(resR, 1<<20)
	res, err := c.read()
	if err != nil {
		return c, nil, err
	}
	return c, res, nil
}

func (c *Child) read() (*proto.Result, error) {
	type rr struct {
		line []byte
		err  error
	}
	ch := make(chan rr, 1)
	go func() {
		line, err := c.out.ReadBytes('\n')
		ch <- rr{line, err}
	}()
	select {
	case r := <-ch:
		if r.err != nil {
			c.wait()
			return nil, fmt.Errorf("%w (exit code %d, stderr %s)", ErrChildDied, c.ExitCode, c.StderrPath)
		}
		var res proto.Result
		if err := json.Unmarshal(r.line, &res); err != nil {
			return nil, fmt.Errorf("%w: bad result line: %v", ErrInfra, err)
		}
		if res.Crashed {
			c.wait()
		}
		return &res, nil
	case <-time.After(Watchdog):
		c.Kill()
		return nil, fmt.Errorf("%w: child did not answer within %v (stderr %s)", ErrInfra, Watchdog, c.StderrPath)
	}
}

func (c *Child) wait() {
	if c.exited {
		return
	}
	done := make(chan struct{})
	go func() {
		c.cmd.Wait()
		close(done)
	}()
	select {
	case <-done:
	case <-time.After(20 * time.Second):
		c.cmd.Process.Kill()
		<-done
	}
	c.exited = true
	if c.cmd.ProcessState != nil {
		c.ExitCode = c.cmd.ProcessState.ExitCode()
	}
	c.in.Close()
	c.outR.Close()
}

// Do sends one command and returns the result.
func (c *Child) Do(cmd proto.Cmd) (*proto.Result, error) {
	if c.exited {
		return nil, fmt.Errorf("%w: child already exited", ErrInfra)
	}
	b, _ := json.Marshal(cmd)
	b = append(b, '\n')
	if _, err := c.in.Write(b); err != nil {
		c.wait()
		return nil, fmt.Errorf("%w (write: %v; exit code %d, stderr %s)", ErrChildDied, err, c.ExitCode, c.StderrPath)
	}
	res, err := c.read()
	if err != nil {
		return nil, err
	}
	if cmd.Op == "shutdown" || cmd.Op == "kill" {
		c.wait()
	}
	return res, nil
}

// Kill ends the process from outside (watchdog / cleanup).
func (c *Child) Kill() {
	if c.exited {
		return
	}
	c.cmd.Process.Kill()
	c.wait()
}

func (c *Child) Exited() bool { return c.exited }

// StderrTail returns the last n bytes of the child's stderr capture.
func (c *Child) StderrTail(n int) string {
	b, err := os.ReadFile(c.StderrPath)
	if err != nil {
		return ""
	}
	if len(b) > n {
		b = b[len(b)-n:]
	}
	return string(b)
}

// PanicInStderr reports whether the child's stderr shows a Go panic / fatal error.
func (c *Child) PanicInStderr() string {
	b, err := os.ReadFile(c.StderrPath)
	if err != nil {
		return ""
	}
	s := string(b)
	for _, marker := range []string{"panic: ", "fatal error: ", "[signal SIG"} {
		if i := strings.Index(s, marker); i >= 0 {
			j := i + 600
			if j > len(s) {
				j = len(s)
			}
			return s[i:j]
		}
	}
	return ""
}
