package drv

import (
	"encoding/json"
	"errors"
	"fmt"
	"hash/fnv"
	"os"
	"path/filepath"
	"strings"

	"verif/sim/proto"
)

// Knobs are the per-run randomised configuration values.
type Knobs struct {
	MapSeed    uint64            `json:"map_seed"`
	UUIDSeed   uint64            `json:"uuid_seed"`
	SchedSeed  uint64            `json:"sched_seed"`
	Bias       int               `json:"bias,omitempty"`
	GoMaxProcs int               `json:"gomaxprocs,omitempty"`
	IIDStart   uint32            `json:"iid_start,omitempty"`
	MutIDStart uint64            `json:"mutid_start,omitempty"`
	RWMode     string            `json:"rwmode,omitempty"`
	AdminToken string            `json:"admintoken,omitempty"`
	Caches     map[string]int    `json:"caches,omitempty"`
	AllowSplit bool              `json:"allow_split,omitempty"`
	Second     bool              `json:"second_store,omitempty"`
	Backends   map[string]string `json:"backends,omitempty"`
	MutLogJSON bool              `json:"mutlog_json,omitempty"`
	LockYield  bool              `json:"lock_yield,omitempty"` // DVID's own mutex acquisitions are scheduler yield points too
	ShutDelay  int               `json:"shutdown_delay,omitempty"`
}

// SchedRec is the recorded schedule of one command (for replay).
type SchedRec struct {
	Choices []int `json:"c"`
}

// RunStats accumulates what one run actually exercised.
type RunStats struct {
	Lifetimes   int            `json:"lifetimes"`
	Commands    int            `json:"commands"`
	Requests    int            `json:"requests"`
	Decisions   int            `json:"decisions"`  // scheduling decisions with >= 2 parked goroutines
	MaxWidth    int            `json:"max_width"`  // largest parked set at a decision
	Writes      int            `json:"writes"`     // mutating store/log calls
	SimMS       int64          `json:"sim_ms"`     // fake milliseconds covered
	Faults      map[string]int `json:"faults"`     // fault kinds that actually fired
	Probes      map[string]int `json:"probes"`     // reach probes
	SchedHash   uint64         `json:"sched_hash"` // hash of the decision sequence at width >= 2
	Panic500    []string       `json:"panic500,omitempty"`
	ChildDeaths []string       `json:"child_deaths,omitempty"`
}

func NewRunStats() *RunStats {
	return &RunStats{Faults: map[string]int{}, Probes: map[string]int{}}
}

func (s *RunStats) Probe(name string) { s.Probes[name]++ }

// World is the simulated deployment of one run: a durable directory and a
// sequence of server lifetimes (child processes) on it.
type World struct {
	Dir    string
	Knobs  Knobs
	Stats  *RunStats
	Detail int // event detail requested from the child

	child          *Child
	lifeIdx        int
	cmdIdx         int
	Replay         []SchedRec // if non-nil, schedules are taken from here
	Recorded       []SchedRec
	EventLog       []string // concatenated child events (when Detail > 0)
	lastNow        int64
	Faults         *proto.FaultPlan // fault plan for the next lifetime's boot
	StderrKeep     []string
	lastEndCrashed bool
	crashLabel     string
	CurStep        int   // set by executors: index of the scenario step being executed
	StepOfCmd      []int // step index of every command issued
}

var worldCounter int

func NewWorld(tag string, k Knobs) *World {
	dir := filepath.Join(ScratchRoot(), tag)
	os.RemoveAll(dir)
	os.MkdirAll(dir, 0755)
	return &World{Dir: dir, Knobs: k, Stats: NewRunStats(), Detail: 1}
}

// Sub creates another world (own directory and lifetimes) whose statistics are
// accumulated into this world's: used by checks that run one workload many
// times (fault enumeration).
func (w *World) Sub(tag string) *World {
	s := NewWorld(filepath.Base(w.Dir)+"-"+tag, w.Knobs)
	s.Stats = w.Stats
	s.Detail = w.Detail
	return s
}

// ScratchRoot is where run directories live (tmpfs); removed as each run ends.
func ScratchRoot() string {
	if d := os.Getenv("VERIF_SCRATCH"); d != "" {
		return d
	}
	return fmt.Sprintf("/dev/shm/verif-%d", os.Getpid())
}

func (w *World) nextSched() *proto.Sched {
	sc := &proto.Sched{Seed: w.Knobs.SchedSeed*1000003 + uint64(w.cmdIdx)*7919 + 1, Bias: w.Knobs.Bias}
	if w.Replay != nil && w.cmdIdx < len(w.Replay) {
		sc.Choices = w.Replay[w.cmdIdx].Choices
	}
	return sc
}

func (w *World) absorb(res *proto.Result) {
	if res == nil {
		return
	}
	w.Recorded = append(w.Recorded, SchedRec{Choices: res.Choices})
	w.StepOfCmd = append(w.StepOfCmd, w.CurStep)
	w.cmdIdx++
	w.Stats.Commands++
	h := fnv.New64a()
	var b [8]byte
	put := func(x uint64) {
		for i := 0; i < 8; i++ {
			b[i] = byte(x >> (8 * i))
		}
		h.Write(b[:])
	}
	put(w.Stats.SchedHash)
	for i, c := range res.Choices {
		w.Stats.Decisions++
		if i < len(res.Widths) && res.Widths[i] > w.Stats.MaxWidth {
			w.Stats.MaxWidth = res.Widths[i]
		}
		put(uint64(c))
		if i < len(res.Widths) {
			put(uint64(res.Widths[i]))
		}
	}
	if len(res.Choices) > 0 {
		w.Stats.SchedHash = h.Sum64()
	}
	for k, v := range res.Faults {
		w.Stats.Faults[k] += v
	}
	w.Stats.Writes += len(res.WriteLog)
	if res.Crashed {
		w.lastEndCrashed = true
		w.crashLabel = res.CrashLbl
	}
	if res.NowMS > w.lastNow {
		w.Stats.SimMS += res.NowMS - w.lastNow
		w.lastNow = res.NowMS
	}
	if w.Detail > 0 {
		w.EventLog = append(w.EventLog, res.Events...)
	}
	for _, r := range res.Resps {
		if r.Status == 500 && strings.Contains(string(r.Body), "Panic detected") {
			msg := string(r.Body)
			if len(msg) > 400 {
				msg = msg[:400]
			}
			w.Stats.Panic500 = append(w.Stats.Panic500, msg)
		}
	}
}

// Start boots a new server lifetime on the world's directory.
func (w *World) Start() (*proto.Result, error) {
	if w.child != nil && !w.child.Exited() {
		return nil, fmt.Errorf("%w: previous lifetime still running", ErrInfra)
	}
	w.lifeIdx++
	w.Stats.Lifetimes++
	if w.Knobs.LockYield {
		w.Stats.Probe("lifetime-with-lock-yield-scheduling")
	}
	cfg := proto.Config{
		Dir:             w.Dir,
		RWMode:          w.Knobs.RWMode,
		AdminToken:      w.Knobs.AdminToken,
		InstanceIDStart: w.Knobs.IIDStart,
		MutIDStart:      w.Knobs.MutIDStart,
		ShutdownDelay:   w.Knobs.ShutDelay,
		AllowSplit:      w.Knobs.AllowSplit,
		Caches:          w.Knobs.Caches,
		SecondStore:     w.Knobs.Second,
		Backends:        w.Knobs.Backends,
		MutLogJSON:      w.Knobs.MutLogJSON,
		LockYield:       w.Knobs.LockYield || os.Getenv("VERIF_LOCKYIELD") == "1", // env: diagnosis only
		Faults:          w.Faults,
		Sched:           *w.nextSched(),
		EventDetail:     w.Detail,
	}
	w.Faults = nil
	w.lastNow = 0
	afterCrash := w.lastEndCrashed
	w.lastEndCrashed = false
	c, res, err := StartChild(cfg, ChildOpts{
		MapSeed:    w.Knobs.MapSeed,
		UUIDSeed:   w.Knobs.UUIDSeed*131 + uint64(w.lifeIdx),
		GoMaxProcs: w.Knobs.GoMaxProcs,
		Tag:        fmt.Sprintf("L%d", w.lifeIdx),
	})
	w.child = c
	if err != nil {
		if c != nil {
			w.noteDeath(c, err)
		}
		return nil, err
	}
	w.absorb(res)
	if res.Crashed {
		return res, ErrPlannedCrash
	}
	if !res.OK {
		be := &BootError{Lifetime: w.lifeIdx, Err: res.Err, Wedged: res.Wedged, Stacks: res.Stacks, Stderr: c.StderrTail(3000), AfterCrash: afterCrash}
		c.Kill()
		return res, be
	}
	return res, nil
}

// BootError: the server did not start on the existing durable state.
type BootError struct {
	Lifetime   int
	Err        string
	Wedged     bool
	Stacks     string
	Stderr     string
	AfterCrash bool
}

func (e *BootError) Error() string {
	return fmt.Sprintf("server start-up failed in lifetime %d: %s (wedged=%v)", e.Lifetime, e.Err, e.Wedged)
}

// Discard ends the run's last lifetime without counting it as an injected fault.
func (w *World) Discard() {
	if w.child != nil {
		w.child.Kill()
	}
}

// NowMS is the fake clock of the running lifetime (ms since the bubble's epoch, 2000-01-01T00:00:00Z).
func (w *World) NowMS() int64 { return w.lastNow }

// LastCrashed reports whether the most recent lifetime ended by a planned crash.
func (w *World) LastCrashed() bool { return w.lastEndCrashed }

// CrashLabel returns the label of the write at which the planned crash fired.
func (w *World) CrashLabel() string { return w.crashLabel }

// MarkCrashed records that the current lifetime ended by a planned crash.
func (w *World) MarkCrashed() { w.lastEndCrashed = true }

func (w *World) noteDeath(c *Child, err error) {
	msg := fmt.Sprintf("lifetime %d: %v", w.lifeIdx, err)
	if p := c.PanicInStderr(); p != "" {
		msg += "\n" + p
	}
	w.Stats.ChildDeaths = append(w.Stats.ChildDeaths, msg)
}

// Do sends a command to the running lifetime.
func (w *World) Do(cmd proto.Cmd) (*proto.Result, error) {
	if w.child == nil || w.child.Exited() {
		return nil, fmt.Errorf("%w: no running lifetime", ErrInfra)
	}
	if cmd.Sched == nil && (cmd.Op == "batch" || cmd.Op == "barrier" || cmd.Op == "shutdown" || cmd.Op == "sleep") {
		cmd.Sched = w.nextSched()
	}
	w.Stats.Requests += len(cmd.Reqs)
	res, err := w.child.Do(cmd)
	if err != nil {
		w.noteDeath(w.child, err)
		return nil, err
	}
	w.absorb(res)
	if traceReqs {
		for i, rq := range cmd.Reqs {
			if i < len(res.Resps) {
				b, rb := rq.Body, res.Resps[i].Body
				if len(b) > 400 {
					b = b[:400]
				}
				if len(rb) > 300 {
					rb = rb[:300]
				}
				fmt.Fprintf(os.Stderr, "TRACE %s %s %s %q -> %d %q\n", cmd.Mode, rq.Method, rq.URL, b, res.Resps[i].Status, rb)
			}
		}
	}
	if res.Crashed {
		return res, ErrPlannedCrash
	}
	return res, nil
}

// traceReqs (VERIF_TRACE=1) prints every request and answer to stderr; debugging aid, never part of a verdict.
var traceReqs = os.Getenv("VERIF_TRACE") != ""

// Batch issues requests concurrently; mode "barrier" also drains background work.
func (w *World) Batch(reqs []proto.Req, mode string) (*proto.Result, error) {
	return w.Do(proto.Cmd{Op: "batch", Reqs: reqs, Mode: mode})
}

// HTTP issues one request and settles all background work (mode barrier).
func (w *World) HTTP(method, url string, body []byte) (int, []byte, error) {
	if method == "GET" || method == "HEAD" {
		resps, err := w.Seq([]proto.Req{{Client: "c0", Kind: "http", Method: method, URL: url, Body: body}})
		if err != nil {
			return 0, nil, err
		}
		return resps[0].Status, resps[0].Body, nil
	}
	res, err := w.Batch([]proto.Req{{Client: "c0", Kind: "http", Method: method, URL: url, Body: body}}, "barrier")
	if err != nil {
		return 0, nil, err
	}
	if res.Wedged {
		return 0, nil, w.wedgeOrHung(method+" "+url, res.Stacks)
	}
	r := res.Resps[0]
	return r.Status, r.Body, nil
}

// Seq issues requests one after another from one client (reads, set-up).
func (w *World) Seq(reqs []proto.Req) ([]proto.Resp, error) {
	if len(reqs) == 0 {
		return nil, nil
	}
	mode := "seqfast"
	for _, r := range reqs {
		ro := (r.Kind == "http" || r.Kind == "") && (r.Method == "GET" || r.Method == "HEAD")
		if r.Kind == "store" && r.Store != nil {
			switch r.Store.Op {
			case "get", "getrange", "keysinrange", "sendkeysinrange", "processrange", "rawrange", "rawdump":
				ro = true
			}
		}
		if !ro {
			mode = "seq"
		}
	}
	res, err := w.Batch(reqs, mode)
	if err != nil {
		return nil, err
	}
	if res.Wedged {
		return nil, w.wedgeOrHung("seq "+reqs[0].Method+" "+reqs[0].URL, res.Stacks)
	}
	return res.Resps, nil
}

// SeqFast issues requests one after another with no scheduling decisions at all
// (bulk filler work whose interleaving is irrelevant).
func (w *World) SeqFast(reqs []proto.Req) ([]proto.Resp, error) {
	res, err := w.Batch(reqs, "seqfast")
	if err != nil {
		return nil, err
	}
	if res.Wedged {
		return nil, w.wedgeOrHung("seqfast "+reqs[0].Method+" "+reqs[0].URL, res.Stacks)
	}
	if err := w.Barrier(); err != nil {
		return nil, err
	}
	return res.Resps, nil
}

func GET(url string) proto.Req { return proto.Req{Client: "c0", Kind: "http", Method: "GET", URL: url} }
func HEAD(url string) proto.Req {
	return proto.Req{Client: "c0", Kind: "http", Method: "HEAD", URL: url}
}
func POST(url string, body []byte) proto.Req {
	return proto.Req{Client: "c0", Kind: "http", Method: "POST", URL: url, Body: body}
}
func DELETE(url string) proto.Req {
	return proto.Req{Client: "c0", Kind: "http", Method: "DELETE", URL: url}
}

// RPC issues one command through the real RPC switch.
func (w *World) RPC(body []byte, args ...string) (int, string, error) {
	res, err := w.Batch([]proto.Req{{Client: "c0", Kind: "rpc", RPC: args, Body: body}}, "barrier")
	if err != nil {
		return 0, "", err
	}
	if res.Wedged {
		return 0, "", w.wedgeOrHung("rpc "+strings.Join(args, " "), res.Stacks)
	}
	r := res.Resps[0]
	if r.Status != 200 {
		return r.Status, r.Err, nil
	}
	return r.Status, string(r.Body), nil
}

type WedgeError struct {
	What   string
	Stacks string
}

func (e *WedgeError) Error() string { return "wedged: " + e.What }

// HungError: one request never completed, but the server still serves others.
type HungError struct {
	What   string
	Stacks string
}

func (e *HungError) Error() string { return "request hung (server still serving): " + e.What }

// wedgeOrHung classifies a request that could not be completed: if a following
// trivial request (taking the metadata locks and reading the store) is still
// served the server is alive and only that request hangs.
// ClassifyWedge is wedgeOrHung for executors that issue their own batches.
func (w *World) ClassifyWedge(what, stacks string) error { return w.wedgeOrHung(what, stacks) }

func (w *World) wedgeOrHung(what, stacks string) error {
	res, err := w.Do(proto.Cmd{Op: "batch", Mode: "return", Reqs: []proto.Req{
		{Client: "probe", Kind: "http", Method: "GET", URL: "/api/repos/info"},
		{Client: "probe2", Kind: "http", Method: "GET", URL: "/api/server/types"}}})
	if err == nil && !res.Wedged && len(res.Resps) == 2 && res.Resps[0].Status == 200 && res.Resps[1].Status == 200 {
		w.Stats.Probe("request-hung")
		return &HungError{What: what, Stacks: stacks}
	}
	return &WedgeError{What: what, Stacks: stacks}
}

func (w *World) Barrier() error {
	res, err := w.Do(proto.Cmd{Op: "barrier"})
	if err != nil {
		return err
	}
	if res.Wedged {
		return &WedgeError{What: "barrier", Stacks: res.Stacks}
	}
	return nil
}

// SetFaults installs a fault plan in the running lifetime (crash counts are relative to now).
func (w *World) SetFaults(f *proto.FaultPlan) error {
	_, err := w.Do(proto.Cmd{Op: "faults", Faults: f})
	return err
}

// Writes returns the number of mutating store/log calls of the current lifetime so far.
func (w *World) Writes() (int, []string, error) {
	res, err := w.Do(proto.Cmd{Op: "faults"})
	if err != nil {
		return 0, nil, err
	}
	return res.Writes, res.WriteLog, nil
}

func (w *World) Sleep(ms int64) error {
	_, err := w.Do(proto.Cmd{Op: "sleep", MS: ms})
	return err
}

// Stop ends the current lifetime: "clean" (real shutdown sequence) or "kill".
func (w *World) Stop(kind string) error {
	if w.child == nil || w.child.Exited() {
		return nil
	}
	op := "shutdown"
	if kind == "kill" {
		op = "kill"
	}
	res, err := w.Do(proto.Cmd{Op: op})
	if err != nil {
		if kind != "kill" && errors.Is(err, ErrChildDied) {
			// The process died while executing the shutdown sequence (e.g. a background
			// sweep touching a store that shutdown had already closed).  The server was
			// going down anyway: for the run this is an abrupt stop, not a verdict.
			w.Stats.Probe("died-during-clean-shutdown")
			w.Stats.Faults["restart-clean-died"]++
			return nil
		}
		return err
	}
	if kind != "kill" {
		w.Stats.Faults["restart-clean"]++
		if !res.OK {
			return fmt.Errorf("%w: clean shutdown did not complete (wedged=%v)", ErrInfra, res.Wedged)
		}
	}
	return nil
}

// Restart = Stop + Start.
func (w *World) Restart(kind string) (*proto.Result, error) {
	if err := w.Stop(kind); err != nil {
		return nil, err
	}
	return w.Start()
}

// Crashed reports whether the current lifetime ended by a planned crash.
func (w *World) ChildExited() bool { return w.child == nil || w.child.Exited() }

func (w *World) ChildStderrTail(n int) string {
	if w.child == nil {
		return ""
	}
	return w.child.StderrTail(n)
}

// Close kills any running lifetime and removes the run directory.
func (w *World) Close() {
	if w.child != nil {
		w.child.Kill()
	}
	if os.Getenv("VERIF_KEEPDIR") == "" { // diagnosis only: keep the run directory (logs, stores)
		os.RemoveAll(w.Dir)
	}
}

// KeepDir moves the durable directory aside (for replay files of crash runs).
func (w *World) DirSnapshot() map[string]int64 {
	out := map[string]int64{}
	filepath.Walk(w.Dir, func(p string, info os.FileInfo, err error) error {
		if err == nil && !info.IsDir() {
			rel, _ := filepath.Rel(w.Dir, p)
			out[rel] = info.Size()
		}
		return nil
	})
	return out
}

func MustJSON(v interface{}) []byte {
	b, err := json.Marshal(v)
	if err != nil {
		panic(err)
	}
	return b
}

// ServerErrorLines returns the last n ERROR/CRITICAL lines of the lifetimes' logs.
func (w *World) ServerErrorLines(n int) string {
	files, _ := filepath.Glob(filepath.Join(w.Dir, "stderr-L*.log"))
	var lines []string
	for _, f := range files {
		b, err := os.ReadFile(f)
		if err != nil {
			continue
		}
		for _, ln := range strings.Split(string(b), "\n") {
			if strings.Contains(ln, " ERROR ") || strings.Contains(ln, " CRITICAL ") {
				if len(ln) > 400 {
					ln = ln[:400]
				}
				lines = append(lines, filepath.Base(f)+": "+ln)
			}
		}
	}
	if len(lines) > n {
		lines = lines[len(lines)-n:]
	}
	return strings.Join(lines, "\n")
}
