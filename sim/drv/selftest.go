package drv

import (
	"fmt"
	"os"
	"strings"
	"sync"
)

// SelfTestDeterminism runs the same scenario (same PRNG value) in many fresh
// processes at GOMAXPROCS 1, 4 and 16 and diffs the complete event logs
// (every yield, every decision with its sorted parked set, every fault) and
// the recorded decision sequences byte for byte.
func SelfTestDeterminism(ids []string, scenarios, repeats int, seed uint64) int {
	bad := 0
	total := 0
	for _, id := range ids {
		chk := Lookup(id)
		if chk == nil {
			fmt.Fprintf(os.Stderr, "unknown property %s\n", id)
			return 2
		}
		for sIdx := 0; sIdx < scenarios; sIdx++ {
			rs := RunSeed(seed, sIdx)
			mk := func() *Scenario {
				sc := chk.Generate(NewRNG(rs), "quick", sIdx)
				sc.Prop, sc.Seed, sc.Idx = chk.ID(), rs, sIdx
				return sc
			}
			type out struct {
				log   string
				sched string
				viol  string
				err   error
			}
			results := make([]out, repeats)
			var wg sync.WaitGroup
			sem := make(chan struct{}, 16)
			for rep := 0; rep < repeats; rep++ {
				wg.Add(1)
				sem <- struct{}{}
				go func(rep int) {
					defer wg.Done()
					defer func() { <-sem }()
					sc := mk()
					sc.Knobs.GoMaxProcs = []int{1, 4, 16}[rep%3]
					w := NewWorld(fmt.Sprintf("det-%s-%d-%d", id, sIdx, rep), sc.Knobs)
					w.Detail = 2
					v, err := safeExecute(chk, sc, w)
					var sb strings.Builder
					for _, r := range w.Recorded {
						fmt.Fprintf(&sb, "%v;", r.Choices)
					}
					// "y" lines record the (real-time) order in which goroutines reached their
					// park point inside one scheduling step; the decision lines list the complete
					// sorted parked set, so arrival order carries no further information
					var kept []string
					for _, l := range w.EventLog {
						if !strings.HasPrefix(l, "y ") {
							kept = append(kept, l)
						}
					}
					o := out{log: strings.Join(kept, "\n"), sched: sb.String(), err: err}
					if v != nil {
						o.viol = v.Sig
					}
					results[rep] = o
					w.Close()
				}(rep)
			}
			wg.Wait()
			ref := results[0]
			ok := true
			for rep := 1; rep < repeats; rep++ {
				r := results[rep]
				total++
				if r.err != nil || ref.err != nil {
					fmt.Printf("DETERMINISM %s scenario %d rep %d: infrastructure error %v / %v\n", id, sIdx, rep, ref.err, r.err)
					ok = false
					bad++
					continue
				}
				if r.log != ref.log || r.sched != ref.sched || r.viol != ref.viol {
					ok = false
					bad++
					a, b := strings.Split(ref.log, "\n"), strings.Split(r.log, "\n")
					i := 0
					for i < len(a) && i < len(b) && a[i] == b[i] {
						i++
					}
					la, lb := "<end>", "<end>"
					if i < len(a) {
						la = a[i]
					}
					if i < len(b) {
						lb = b[i]
					}
					fmt.Printf("DETERMINISM MISMATCH %s scenario %d (seed %d) rep %d (GOMAXPROCS %d): first difference at event %d of %d/%d\n  ref: %.300s\n  got: %.300s\n",
						id, sIdx, rs, rep, []int{1, 4, 16}[rep%3], i, len(a), len(b), la, lb)
				}
			}
			if ok {
				fmt.Printf("DETERMINISM ok %s scenario %d: %d processes identical (%d events)\n", id, sIdx, repeats, strings.Count(ref.log, "\n")+1)
			}
		}
	}
	os.RemoveAll(ScratchRoot())
	fmt.Printf("DETERMINISM summary: %d comparisons, %d mismatches\n", total, bad)
	if bad > 0 {
		return 2
	}
	return 0
}
