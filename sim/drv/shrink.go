package drv

import (
	"os"
	"fmt"
	"time"
)

// Shrink minimises a failing scenario: ddmin over steps, then serialising
// concurrent batches, then pushing schedule choices towards 0.  A candidate is
// kept only if the same oracle fails with the same signature.  The result is
// re-executed once more (replay mode) before it is returned.
func Shrink(chk FullCheck, sc *Scenario, v *Violation, budget time.Duration) (rs *Scenario, rv *Violation) {
	// a failure of the minimiser must never swallow the violation: fall back to the unminimised scenario
	defer func() {
		if e := recover(); e != nil {
			fmt.Fprintf(os.Stderr, "shrink: internal error (%v); reporting the unminimised scenario\n", e)
			rs, rv = sc, v
		}
	}()
	deadline := time.Now().Add(budget)
	best, bestV := sc, v
	tries := 0
	try := func(cand *Scenario) bool {
		if time.Now().After(deadline) {
			return false
		}
		tries++
		nv, _, w, err := RunOnce(chk, cand, fmt.Sprintf("shrink-%d", tries), true)
		rec, soc := w.Recorded, w.StepOfCmd
		w.Close()
		if err != nil || nv == nil || nv.Sig != v.Sig || nv.Prop != v.Prop {
			return false
		}
		cand.Sched = rec
		cand.StepOfCmd = soc
		best, bestV = cand, nv
		return true
	}
	without := func(s *Scenario, lo, hi int) *Scenario {
		c := *s
		c.Steps = append(append([]Op{}, s.Steps[:lo]...), s.Steps[hi:]...)
		// drop the schedule records of the removed steps, renumber the rest
		c.Sched, c.StepOfCmd = nil, nil
		for i, st := range s.StepOfCmd {
			if i >= len(s.Sched) {
				break
			}
			if st >= lo && st < hi {
				continue
			}
			ns := st
			if st >= hi {
				ns = st - (hi - lo)
			}
			c.Sched = append(c.Sched, s.Sched[i])
			c.StepOfCmd = append(c.StepOfCmd, ns)
		}
		return &c
	}
	// 1. ddmin over steps
	n := 2
	for len(best.Steps)-best.Fixed >= 2 && time.Now().Before(deadline) {
		chunk := (len(best.Steps) - best.Fixed + n - 1) / n
		reduced := false
		for lo := best.Fixed; lo < len(best.Steps); lo += chunk {
			hi := lo + chunk
			if hi > len(best.Steps) {
				hi = len(best.Steps)
			}
			if try(without(best, lo, hi)) {
				reduced = true
				if n > 2 {
					n--
				}
				break
			}
		}
		if !reduced {
			if chunk == 1 {
				break
			}
			n *= 2
			if n > len(best.Steps)-best.Fixed {
				n = len(best.Steps) - best.Fixed
			}
		}
	}
	// 2. shrink concurrent batches: drop members
	for i := 0; i < len(best.Steps) && time.Now().Before(deadline); i++ {
		for j := 0; j < len(best.Steps[i].Sub) && len(best.Steps[i].Sub) > 1; {
			c := *best
			c.Steps = append([]Op{}, best.Steps...)
			st := c.Steps[i]
			st.Sub = append(append([]Op{}, st.Sub[:j]...), st.Sub[j+1:]...)
			c.Steps[i] = st
			if !try(&c) {
				j++
			}
		}
	}
	// 3. schedule choices towards 0
	for i := 0; i < len(best.Sched); i++ { // best may be replaced by a shorter scenario inside the loop
		if time.Now().After(deadline) {
			break
		}
		nz := false
		for _, ch := range best.Sched[i].Choices {
			if ch != 0 {
				nz = true
			}
		}
		if !nz {
			continue
		}
		c := *best
		c.Sched = append([]SchedRec{}, best.Sched...)
		c.Sched[i] = SchedRec{Choices: make([]int, len(best.Sched[i].Choices))}
		try(&c)
	}
	// final confirmation in replay mode
	final := *best
	nv, _, w, err := RunOnce(chk, &final, "shrink-final", true)
	w.Close()
	if err == nil && nv != nil && nv.Sig == v.Sig {
		return &final, nv
	}
	if best != sc {
		// the minimised form did not replay; fall back to the original
		return sc, v
	}
	return best, bestV
}
