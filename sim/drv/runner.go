package drv

import (
	"encoding/json"
	"errors"
	"fmt"
	"hash/fnv"
	"math/rand/v2"
	"os"
	"path/filepath"
	"runtime"
	"sort"
	"strings"
	"sync"
	"sync/atomic"
	"time"

	"verif/sim/proto"
)

// Op is one (symbolic) operation of a scenario.  One flat struct serves all
// properties; unused fields are omitted from the JSON.
type Op struct {
	Op  string           `json:"op"`
	C   string           `json:"c,omitempty"`   // client tag inside a concurrent batch
	I   string           `json:"i,omitempty"`   // data instance name
	V   int              `json:"v,omitempty"`   // version index (symbolic: n-th version created)
	R   int              `json:"r,omitempty"`   // repo index
	K   string           `json:"k,omitempty"`   // key
	K2  string           `json:"k2,omitempty"`  // second key (range end, new name, ...)
	Val string           `json:"val,omitempty"` // value / body
	Ps  []int            `json:"ps,omitempty"`  // parent version indices
	Br  string           `json:"br,omitempty"`  // branch name
	U   string           `json:"u,omitempty"`   // literal uuid / argument
	T   string           `json:"t,omitempty"`   // type name / kind / format
	N   int64            `json:"n,omitempty"`
	M   int64            `json:"m,omitempty"`
	L   []uint64         `json:"l,omitempty"`   // labels
	P   [][]int          `json:"p,omitempty"`   // points / boxes
	S   []string         `json:"s,omitempty"`   // strings (tags, fields, ...)
	J   json.RawMessage  `json:"j,omitempty"`   // free-form JSON payload
	Sub []Op             `json:"sub,omitempty"` // operations issued concurrently
	F   *proto.FaultPlan `json:"f,omitempty"`
	Mode string          `json:"mode,omitempty"`
}

// Scenario is one generated run: knobs + steps (+ recorded schedule for replay).
type Scenario struct {
	Prop   string     `json:"prop"`
	Seed   uint64     `json:"seed"`
	Idx    int        `json:"idx"`
	Tier   string     `json:"tier,omitempty"`
	Family string     `json:"family,omitempty"`
	Knobs  Knobs      `json:"knobs"`
	Fixed  int        `json:"fixed,omitempty"` // leading set-up steps the shrinker must keep
	Steps  []Op       `json:"steps"`
	Sched  []SchedRec `json:"sched,omitempty"`
	// StepOfCmd[i] = index of the step that issued command i (for shrinking the schedule with the steps)
	StepOfCmd []int `json:"step_of_cmd,omitempty"`
}

// Violation is an oracle mismatch on a completed run.
type Violation struct {
	Prop   string `json:"property"`
	Oracle string `json:"oracle"`
	Sig    string `json:"signature"` // stable class: used for shrinking and for known-findings matching
	Detail string `json:"detail"`
	Step   int    `json:"step"`
}

func (v *Violation) String() string {
	return fmt.Sprintf("%s/%s [%s] at step %d: %s", v.Prop, v.Oracle, v.Sig, v.Step, v.Detail)
}

// Check is what every property supplies.
type Check interface {
	ID() string
	Level() string // exploration | fault_enumeration
	// Generate builds scenario #idx of a batch from its own PRNG.
	Generate(rng *rand.Rand, tier string, idx int) *Scenario
	// Execute runs the scenario in a fresh world.  error => infrastructure.
	Execute(sc *Scenario, w *World) (*Violation, error)
	// NonTrivial says whether the executed run counts as non-trivial.
	NonTrivial(sc *Scenario, st *RunStats) bool
	Rule() string
	Assumptions() []string
	Budget(tier string) (maxRuns int, wall time.Duration)
}

type KnownFinding struct {
	Property  string `json:"property"`
	Signature string `json:"signature"` // substring match against Violation.Sig
	What      string `json:"what"`
	Status    string `json:"status"` // "known" | "fixed"
	Commit    string `json:"commit,omitempty"`
}

func loadKnown() []KnownFinding {
	b, err := os.ReadFile("/verif/known_findings.json")
	if err != nil {
		return nil
	}
	var k struct {
		Findings []KnownFinding `json:"findings"`
	}
	if json.Unmarshal(b, &k) != nil {
		return nil
	}
	return k.Findings
}

func matchKnown(known []KnownFinding, v *Violation) *KnownFinding {
	for i := range known {
		k := &known[i]
		if k.Status == "known" && k.Property == v.Prop && strings.Contains(v.Sig, k.Signature) {
			return k
		}
	}
	return nil
}

func splitmix(x uint64) uint64 {
	x += 0x9e3779b97f4a7c15
	x = (x ^ (x >> 30)) * 0xbf58476d1ce4e5b9
	x = (x ^ (x >> 27)) * 0x94d049bb133111eb
	return x ^ (x >> 31)
}

// RunSeed derives the PRNG seed of run #idx from the batch seed.
func RunSeed(seed uint64, idx int) uint64 { return splitmix(seed ^ splitmix(uint64(idx)+1)) }

func NewRNG(seed uint64) *rand.Rand { return rand.New(rand.NewPCG(seed, splitmix(seed))) }

// RunOnce executes a scenario in a fresh world and returns the outcome,
// including the C20 monitor (panic-500 on a well-formed request, unplanned
// child death).
func RunOnce(chk FullCheck, sc *Scenario, tag string, replay bool) (*Violation, *RunStats, *World, error) {
	w := NewWorld(tag, sc.Knobs)
	if replay && sc.Sched != nil {
		w.Replay = sc.Sched
	}
	v, err := safeExecute(chk, sc, w)
	st := w.Stats
	if err != nil {
		var we *WedgeError
		var be *BootError
		var he *HungError
		if errors.As(err, &he) {
			// One request never completed while the server kept serving others:
			// no listed property speaks about that; the run ends without a verdict.
			st.Probe("run-ended-by-hung-request")
			return nil, st, w, nil
		}
		if errors.As(err, &be) {
			prop := "C03"
			if be.AfterCrash {
				prop = "C04"
			}
			if be.Lifetime <= 1 {
				err = fmt.Errorf("%w: first boot on an empty directory failed: %v\n%s\n%s", ErrInfra, be, be.Stderr, be.Stacks)
			} else {
				v = &Violation{Prop: prop, Oracle: "start-up", Sig: "start-up failed:" + scrubNumbers(firstWords(be.Err, 6)), Detail: be.Error() + "\n" + be.Stderr + "\n" + trimStacks(be.Stacks)}
				err = nil
			}
		} else if errors.Is(err, ErrPlannedCrash) {
			err = fmt.Errorf("%w: planned crash not handled by the check: %v", ErrInfra, err)
		} else if errors.As(err, &we) {
			// a wedge during a well-formed workload: the server stopped serving
			v = &Violation{Prop: "C20", Oracle: "wedged", Sig: "wedged:" + firstWords(we.What, 2), Detail: "server wedged: " + we.What + "\n" + we.Stacks}
			err = nil
		} else if errors.Is(err, ErrChildDied) && !chk.ExpectsDeath(sc) {
			d := strings.Join(st.ChildDeaths, "\n")
			if strings.Contains(d, "panic: ") || strings.Contains(d, "fatal error: ") || strings.Contains(d, "[signal SIG") {
				v = &Violation{Prop: "C20", Oracle: "process-death", Sig: "process-death:" + panicSig(d), Detail: d}
				err = nil
			} else {
				err = fmt.Errorf("%w: %v", ErrInfra, err)
			}
		}
	}
	if v != nil {
		if el := w.ServerErrorLines(12); el != "" {
			v.Detail += "\n--- server log (ERROR/CRITICAL lines) ---\n" + el
		}
	}
	if v == nil && err == nil && len(st.Panic500) > 0 && !chk.AllowsPanic500(sc) {
		v = &Violation{Prop: "C20", Oracle: "panic-500", Sig: "panic-500:" + panicSig(st.Panic500[0]), Detail: st.Panic500[0]}
	}
	return v, st, w, err
}

func firstWords(s string, n int) string {
	f := strings.Fields(s)
	if len(f) > n {
		f = f[:n]
	}
	for i := range f {
		// strip uuids / numbers so the signature is a class
		if len(f[i]) > 24 {
			f[i] = f[i][:24]
		}
	}
	return strings.Join(f, " ")
}

func trimStacks(s string) string {
	if len(s) > 6000 {
		return s[:6000] + "\n...[truncated]"
	}
	return s
}

// panicSig extracts a stable description (panic message + first DVID frame).
func panicSig(s string) string {
	msg := ""
	for _, marker := range []string{"panic: ", "fatal error: ", "Panic detected"} {
		if i := strings.Index(s, marker); i >= 0 {
			line := s[i:]
			if j := strings.IndexByte(line, '\n'); j >= 0 {
				rest := line[j+1:]
				line = line[:j]
				if marker == "Panic detected" {
					if k := strings.IndexByte(rest, '\n'); k >= 0 {
						line = rest[:k]
					} else {
						line = rest
					}
				}
			}
			msg = line
			break
		}
	}
	frame := ""
	for _, ln := range strings.Split(s, "\n") {
		ln = strings.TrimSpace(ln)
		if strings.HasPrefix(ln, "github.com/janelia-flyem/dvid/") && strings.Contains(ln, "(") {
			frame = ln[:strings.Index(ln, "(")]
			frame = strings.TrimPrefix(frame, "github.com/janelia-flyem/dvid/")
			break
		}
	}
	// remove addresses / numbers that vary
	msg = scrubNumbers(msg)
	if len(msg) > 120 {
		msg = msg[:120]
	}
	return msg + "@" + frame
}

func scrubNumbers(s string) string {
	var sb strings.Builder
	inNum := false
	for _, r := range s {
		if r >= '0' && r <= '9' {
			if !inNum {
				sb.WriteByte('#')
				inNum = true
			}
			continue
		}
		inNum = false
		sb.WriteRune(r)
	}
	return sb.String()
}

// Optional interfaces a Check may implement.
type deathExpecter interface{ ExpectsDeath(sc *Scenario) bool }

// checkAdapter supplies defaults for optional methods.
type CheckBase struct{}

func (CheckBase) ExpectsDeath(sc *Scenario) bool   { return false }
func (CheckBase) AllowsPanic500(sc *Scenario) bool { return false }
func (CheckBase) ShrinkOps() bool                  { return true }

// ---- tier runner ----

type runRecord struct {
	idx      int
	stats    *RunStats
	nontriv  bool
	hash     uint64
	scenario *Scenario
	wall     time.Duration
}

type TierResult struct {
	Exit int
}

// RunTier explores the property with a seeded batch of runs on all cores.
func RunTier(chk FullCheck, tier string, seed uint64) int {
	t0 := time.Now()
	maxRuns, wall := chk.Budget(tier)
	if v := os.Getenv("VERIF_MAX_RUNS"); v != "" {
		fmt.Sscan(v, &maxRuns)
	}
	if v := os.Getenv("VERIF_WALL_S"); v != "" {
		var s int
		fmt.Sscan(v, &s)
		wall = time.Duration(s) * time.Second
	}
	workers := runtime.NumCPU()
	if v := os.Getenv("VERIF_WORKERS"); v != "" {
		fmt.Sscan(v, &workers)
	}
	if workers > 16 {
		workers = 16
	}
	if workers < 1 {
		workers = 1
	}
	known := loadKnown()
	only := -1
	if v := os.Getenv("VERIF_ONLY_IDX"); v != "" {
		fmt.Sscan(v, &only)
	}
	fmt.Printf("SEED %d property=%s tier=%s workers=%d max_runs=%d wall=%v\n", seed, chk.ID(), tier, workers, maxRuns, wall)

	var next atomic.Int64
	var stop atomic.Bool
	var mu sync.Mutex
	var records []runRecord
	var infraErrs []string
	type found struct {
		sc *Scenario
		v  *Violation
	}
	var violations []found
	knownSeen := map[string]int{}
	collect := os.Getenv("VERIF_COLLECT") != ""
	collected := map[string]int{}
	deadline := t0.Add(wall)

	var wg sync.WaitGroup
	for wk := 0; wk < workers; wk++ {
		wg.Add(1)
		go func(wk int) {
			defer wg.Done()
			for !stop.Load() {
				if time.Now().After(deadline) {
					return
				}
				idx := int(next.Add(1) - 1)
				if idx >= maxRuns {
					return
				}
				if only >= 0 {
					if idx > 0 {
						return
					}
					idx = only
				}
				rs := RunSeed(seed, idx)
				sc := chk.Generate(NewRNG(rs), tier, idx)
				sc.Prop = chk.ID()
				sc.Seed = rs
				sc.Idx = idx
				sc.Tier = tier
				r0 := time.Now()
				v, st, w, err := RunOnce(chk, sc, fmt.Sprintf("w%d-r%d", wk, idx), false)
				sc.Sched = w.Recorded
				sc.StepOfCmd = w.StepOfCmd
				w.Close()
				mu.Lock()
				if err != nil {
					infraErrs = append(infraErrs, fmt.Sprintf("run %d: %v", idx, err))
					mu.Unlock()
					continue
				}
				rec := runRecord{idx: idx, stats: st, scenario: sc, wall: time.Since(r0)}
				rec.nontriv = chk.NonTrivial(sc, st)
				rec.hash = scenarioHash(sc, st)
				records = append(records, rec)
				if v != nil {
					if k := matchKnown(known, v); k != nil {
						knownSeen[k.Property+" "+k.Signature+" :: "+k.What]++
					} else if collect {
						if collected[v.Sig] == 0 {
							os.WriteFile(fmt.Sprintf("/tmp/collect-%s-%d.txt", chk.ID(), idx), []byte(v.String()), 0644)
							fmt.Printf("COLLECT run=%d %s\n", idx, indent(v.String(), "    "))
						}
						collected[v.Sig]++
					} else {
						violations = append(violations, found{sc, v})
						stop.Store(true)
					}
				}
				mu.Unlock()
			}
		}(wk)
	}
	wg.Wait()

	exit := 0
	var replayPaths []string
	var vioOut []*Violation
	if len(violations) > 0 {
		// report the violation of the lowest run index (deterministic choice)
		sort.Slice(violations, func(i, j int) bool { return violations[i].sc.Idx < violations[j].sc.Idx })
		f := violations[0]
		sc, v := Shrink(chk, f.sc, f.v, shrinkBudget(tier))
		path := WriteReplay(chk.ID(), sc, v)
		fmt.Printf("VIOLATION property=%s replay=%s\n", v.Prop, path)
		fmt.Printf("  oracle=%s signature=%s\n  %s\n", v.Oracle, v.Sig, indent(v.Detail, "  "))
		replayPaths = append(replayPaths, path)
		vioOut = append(vioOut, v)
		exit = 1
	}
	for sig, n := range collected {
		fmt.Printf("COLLECTED %d x %s\n", n, sig)
	}
	var kf []string
	for k, n := range knownSeen {
		kf = append(kf, fmt.Sprintf("%s (seen in %d runs)", k, n))
	}
	sort.Strings(kf)
	for _, k := range kf {
		parts := strings.SplitN(k, " ", 2)
		fmt.Printf("KNOWN-FINDING: property=%s %s\n", parts[0], parts[1])
	}
	nInfra := len(infraErrs)
	for i, e := range infraErrs {
		if i < 2 {
			fmt.Fprintf(os.Stderr, "INFRA: %s\n", e)
		}
	}
	if exit == 0 && (len(records) == 0 || nInfra > 3+len(records)/20) {
		fmt.Fprintf(os.Stderr, "too many infrastructure errors (%d of %d runs)\n", nInfra, nInfra+len(records))
		exit = 2
	}
	ev := buildEvidence(chk, tier, seed, records, time.Since(t0), len(vioOut), kf, nInfra, workers)
	if err := writeEvidence(chk.ID(), ev); err != nil {
		fmt.Fprintf(os.Stderr, "evidence: %v\n", err)
		if exit == 0 {
			exit = 2
		}
	}
	fmt.Printf("DONE property=%s tier=%s runs=%d nontrivial_distinct=%d infra_errors=%d wall=%.1fs exit=%d\n",
		chk.ID(), tier, len(records), ev.Coverage["distinct_nontrivial"], nInfra, time.Since(t0).Seconds(), exit)
	os.RemoveAll(ScratchRoot())
	return exit
}

func shrinkBudget(tier string) time.Duration {
	if tier == "thorough" {
		return 8 * time.Minute
	}
	return 60 * time.Second
}

func indent(s, pre string) string {
	if len(s) > 4000 {
		s = s[:4000] + "...[truncated]"
	}
	return strings.ReplaceAll(s, "\n", "\n"+pre)
}

// FullCheck = Check + the optional hooks (embed CheckBase for defaults).
type FullCheck interface {
	Check
	ExpectsDeath(sc *Scenario) bool
	AllowsPanic500(sc *Scenario) bool
}

func scenarioHash(sc *Scenario, st *RunStats) uint64 {
	h := fnv.New64a()
	b, _ := json.Marshal(sc.Steps)
	h.Write(b)
	kb, _ := json.Marshal(sc.Knobs.RWMode)
	h.Write(kb)
	fmt.Fprintf(h, "|%d|", st.SchedHash)
	var fk []string
	for k, v := range st.Faults {
		fk = append(fk, fmt.Sprintf("%s=%d", k, v))
	}
	sort.Strings(fk)
	h.Write([]byte(strings.Join(fk, ",")))
	return h.Sum64()
}

// ---- replay files ----

type ReplayFile struct {
	Property  string     `json:"property"`
	Violation *Violation `json:"violation"`
	Scenario  *Scenario  `json:"scenario"`
	EventLog  []string   `json:"event_log,omitempty"`
	Note      string     `json:"note"`
}

func WriteReplay(id string, sc *Scenario, v *Violation) string {
	dir := "/verif/replays"
	os.MkdirAll(dir, 0755)
	path := filepath.Join(dir, fmt.Sprintf("%s-seed%d-run%d.json", id, sc.Seed, sc.Idx))
	rf := ReplayFile{Property: v.Prop, Violation: v, Scenario: sc,
		Note: "replay with: /verif/bin/check " + id + " --replay " + path}
	// one more execution with full event detail to store the trace
	w := NewWorld("replaytrace", sc.Knobs)
	w.Detail = 2
	w.Replay = sc.Sched
	if chk, ok := registry[id]; ok {
		chk.Execute(sc, w)
		rf.EventLog = w.EventLog
		if len(rf.EventLog) > 4000 {
			rf.EventLog = rf.EventLog[len(rf.EventLog)-4000:]
		}
	}
	w.Close()
	b, _ := json.MarshalIndent(rf, "", " ")
	os.WriteFile(path, b, 0644)
	return path
}

var registry = map[string]FullCheck{}

func Register(c FullCheck) { registry[c.ID()] = c }
func Lookup(id string) FullCheck {
	return registry[id]
}
func Registered() []string {
	var ids []string
	for id := range registry {
		ids = append(ids, id)
	}
	sort.Strings(ids)
	return ids
}

// Replay re-executes a replay file; exit 1 if the same violation class recurs.
func Replay(path string) int {
	b, err := os.ReadFile(path)
	if err != nil {
		fmt.Fprintln(os.Stderr, err)
		return 2
	}
	var rf ReplayFile
	if err := json.Unmarshal(b, &rf); err != nil {
		fmt.Fprintln(os.Stderr, err)
		return 2
	}
	chk := Lookup(rf.Scenario.Prop)
	if chk == nil {
		fmt.Fprintf(os.Stderr, "unknown property %q\n", rf.Scenario.Prop)
		return 2
	}
	fmt.Printf("SEED %d property=%s replay of run %d\n", rf.Scenario.Seed, rf.Scenario.Prop, rf.Scenario.Idx)
	v, _, w, err := RunOnce(chk, rf.Scenario, "replay", true)
	defer os.RemoveAll(ScratchRoot())
	defer w.Close()
	if err != nil {
		fmt.Fprintf(os.Stderr, "infrastructure error during replay: %v\n", err)
		return 2
	}
	if v == nil {
		fmt.Println("replay: no violation reproduced")
		return 0
	}
	same := rf.Violation != nil && v.Sig == rf.Violation.Sig
	fmt.Printf("VIOLATION property=%s replay=%s\n", v.Prop, path)
	fmt.Printf("  oracle=%s signature=%s same_signature_as_recorded=%v\n  %s\n", v.Oracle, v.Sig, same, indent(v.Detail, "  "))
	return 1
}

// safeExecute turns a panic of the harness itself (e.g. a shrunk scenario that
// lost its set-up steps) into an infrastructure error.
func safeExecute(chk FullCheck, sc *Scenario, w *World) (v *Violation, err error) {
	defer func() {
		if r := recover(); r != nil {
			buf := make([]byte, 8192)
			n := runtime.Stack(buf, false)
			v, err = nil, fmt.Errorf("%w: harness panic: %v\n%s", ErrInfra, r, buf[:n])
		}
	}()
	return chk.Execute(sc, w)
}

// PanicSig extracts a stable description (panic message + first DVID frame) from a panic report.
func PanicSig(s string) string { return panicSig(s) }
