package drv

import (
	"encoding/json"
	"fmt"
	"os"
	"sort"
	"time"
)

type Evidence struct {
	PropertyID  string                 `json:"property_id"`
	Tier        string                 `json:"tier"`
	Seed        int64                  `json:"seed"`
	Level       string                 `json:"level"`
	Coverage    map[string]interface{} `json:"coverage"`
	Assumptions []string               `json:"assumptions"`
	WallS       float64                `json:"wall_s"`
	Violations  int                    `json:"violations"`
}

// RealVsStub is the component inventory reported in every evidence file.
var RealVsStub = map[string][]string{
	"real": {"server (router, middleware, selectors, handlers, rpc command switch)", "datastore", "storage (contexts, key layout, manager)",
		"storage/badger driver + Badger v3 on tmpfs", "storage/filelog", "all compiled data types", "dvid", "Go runtime goroutines (parked/released one at a time at the yield points)"},
	"simulated": {"goroutine interleaving at store/log calls, Badger transactions and - in lock-yield runs - mutex acquisitions written in DVID's own sources (seeded scheduler)", "clock (testing/synctest bubble)", "hash-map iteration order (runtime build overlay, VERIF_MAPSEED)",
		"UUID randomness (twinj/uuid generator seam)", "process crash (os.Exit in wrapper engine) and restart (fresh process)"},
	"stubbed_or_absent": {"TCP listeners (HTTP and gorpc)", "Kafka", "e-mail", "webhooks", "cloud/cgo storage engines", "groupcache"},
}

func buildEvidence(chk FullCheck, tier string, seed uint64, recs []runRecord, wall time.Duration, nvio int, known []string, infra int, workers int) *Evidence {
	sort.Slice(recs, func(i, j int) bool { return recs[i].idx < recs[j].idx })
	distinct := map[uint64]bool{}
	schedDistinct := map[uint64]bool{}
	faults := map[string]int{}
	probes := map[string]int{}
	var simMS int64
	var lifetimes, decisions, requests, writes, maxWidth int
	families := map[string]int{}
	for _, r := range recs {
		if r.nontriv {
			distinct[r.hash] = true
		}
		if r.stats.Decisions > 0 {
			schedDistinct[r.stats.SchedHash] = true
		}
		for k, v := range r.stats.Faults {
			faults[k] += v
		}
		for k, v := range r.stats.Probes {
			probes[k] += v
		}
		simMS += r.stats.SimMS
		lifetimes += r.stats.Lifetimes
		decisions += r.stats.Decisions
		requests += r.stats.Requests
		writes += r.stats.Writes
		if r.stats.MaxWidth > maxWidth {
			maxWidth = r.stats.MaxWidth
		}
		families[r.scenario.Family]++
	}
	var samples []interface{}
	for i, r := range recs {
		if i >= 3 {
			break
		}
		sc := *r.scenario
		sc.Sched = nil
		sc.StepOfCmd = nil
		if len(sc.Steps) > 40 {
			sc.Steps = sc.Steps[:40]
		}
		samples = append(samples, map[string]interface{}{"scenario": sc, "stats": r.stats})
	}
	if len(samples) == 0 {
		samples = append(samples, "no run completed")
	}
	hours := wall.Hours()
	if hours <= 0 {
		hours = 1e-9
	}
	nd := len(distinct)
	ev := &Evidence{
		PropertyID: chk.ID(), Tier: tier, Seed: int64(seed & 0x7fffffffffffffff), Level: chk.Level(),
		Assumptions: chk.Assumptions(), WallS: wall.Seconds(), Violations: nvio,
		Coverage: map[string]interface{}{
			"evaluations":         len(recs),
			"distinct_nontrivial": nd,
			"rule":                chk.Rule(),
			"samples":             samples,
			"runs_per_hour":       int(float64(len(recs)) / hours),
			"seeds_per_hour":      int(float64(len(recs)) / hours),
			"simulated_seconds":   float64(simMS) / 1000.0,
			"lifetimes":           lifetimes,
			"requests":            requests,
			"store_writes":        writes,
			"faults_fired":        faults,
			"reach_probes":        probes,
			"scheduling_decisions_width_ge2": decisions,
			"distinct_interleavings":         len(schedDistinct),
			"interleaving_measure":           "distinct hash of the sequence of (choice, parked-set size) over all decisions with >= 2 parked goroutines in a run",
			"max_parked_width":               maxWidth,
			"scenario_families":              families,
			"known_findings_seen":            known,
			"infrastructure_errors":          infra,
			"workers":                        workers,
			"components":                     RealVsStub,
			"exhaustive":                     false,
		},
	}
	return ev
}

func writeEvidence(id string, ev *Evidence) error {
	dir := "/verif/evidence"
	if d := os.Getenv("VERIF_EVIDENCE_DIR"); d != "" { // used when a seeded tree and the unchanged tree are explored side by side
		dir = d
	}
	os.MkdirAll(dir, 0755)
	b, err := json.MarshalIndent(ev, "", " ")
	if err != nil {
		return err
	}
	return os.WriteFile(fmt.Sprintf("%s/%s.json", dir, id), b, 0644)
}
