package props

import (
	"encoding/binary"
	"errors"
	"fmt"
	"math/rand/v2"
	"os"
	"path/filepath"
	"sort"
	"strings"
	"time"

	"verif/sim/drv"
	"verif/sim/proto"
)

// C04 — a crash at any write point is recoverable and loses no acknowledged work.
type C04 struct{ drv.CheckBase }

func init() { drv.Register(&C04{}) }

func (C04) ID() string    { return "C04" }
func (C04) Level() string { return "fault_enumeration" }
func (C04) Rule() string {
	return "each evaluation = one sampled short workload (set-up + 1-6 operations from: new repo, commit, new version, branch, merge, new instance, instance rename/delete, key POST/DELETE, note/log) " +
		"run once fault-free (recording every mutating store/log call and the observable snapshot after every operation) and then re-run once for EVERY write N issued by the operations and both sides " +
		"(process exit immediately before / immediately after the N-th write; crash points are matched by write label so divergence is detected), followed by a fresh-process start-up. " +
		"Oracle per crash point: start-up succeeds without repair; graph invariants hold; the snapshot equals the fault-free snapshot before or after the interrupted operation (entirely absent or entirely present) " +
		"and contains every earlier acknowledged operation; retrying the interrupted operation and the remaining operations then work and keep the invariants; a sample of crash points gets a second crash during the recovery start-up; " +
		"JSON mutation-log files are cut at every byte length inside their last record and must yield exactly the complete records. " +
		"a torn-filelog family runs label operations (merge, cleave, renumber, supervoxel split) that append to the binary mutation log of a labelmap version, kills the process and leaves that log cut at EVERY byte length inside its last record and at its boundaries; each cut is followed by a start-up and mapping-dependent reads: no start-up failure, no panic, a log cut inside the last record must read exactly like the log without that record, the intact log like the model. non-trivial = a crash actually fired inside an operation; distinct = distinct (workload, crash point) pairs"
}
func (C04) Assumptions() []string {
	return append([]string{"crash = process death with Badger's files as the kernel has them (no torn writes inside Badger, no power loss)",
		"crash points are the DVID->store calls (Put/Delete/batch Commit/DeleteRange/PutBlob/log Append), not individual Badger transactions"}, commonAssumptions...)
}
func (C04) Budget(tier string) (int, time.Duration) {
	return budget(tier, 48, 3000, 100*time.Second, 30*time.Minute)
}

func (C04) Generate(r *rand.Rand, tier string, idx int) *drv.Scenario {
	if idx%6 == 4 {
		// torn-filelog family: label operations that append to the binary mutation log of one version, then the
		// process is killed and the log is left cut at EVERY byte length inside its last record (and at its
		// boundaries); every cut is followed by a start-up and the mapping-dependent reads
		seed := func() int64 { return int64(r.Uint64N(1 << 40)) }
		steps := []drv.Op{{Op: "lrepo", P: [][]int{{16}, {2, 1, 1}, {0, 0, 0}}}, {Op: "ingest", V: 0, N: seed()}, {Op: "ingest", V: 0, N: seed()}}
		for i := 0; i < 1+r.IntN(4); i++ {
			steps = append(steps, drv.Op{Op: pick(r, []string{"lmerge", "lmerge", "cleave", "renumber", "splitsv"}), V: 0, N: seed()})
		}
		steps = append(steps, drv.Op{Op: "tornlog"})
		return &drv.Scenario{Family: "torn-filelog", Knobs: baseKnobs(r), Steps: steps, Fixed: 3}
	}
	var steps []drv.Op
	d := NewDAG()
	steps = append(steps, drv.Op{Op: "repo", R: 0, N: 0}, drv.Op{Op: "inst", R: 0, I: "kv", T: "keyvalue"})
	d.Add(0, VUUID(0), nil, "", 0)
	valc := 0
	nv := func() string { valc++; return fmt.Sprintf("val%d", valc) }
	// set-up variants so that operations meet different states
	switch r.IntN(4) {
	case 0:
	case 1:
		steps = append(steps, drv.Op{Op: "put", V: 0, I: "kv", K: "a", Val: nv()})
	case 2:
		steps = append(steps, drv.Op{Op: "put", V: 0, I: "kv", K: "a", Val: nv()}, drv.Op{Op: "commit", V: 0}, drv.Op{Op: "newver", V: 0, N: 1})
		d.Nodes[0].Locked = true
		d.Add(1, VUUID(1), []int{0}, "", 0)
	case 3:
		steps = append(steps, drv.Op{Op: "commit", V: 0}, drv.Op{Op: "newver", V: 0, N: 1}, drv.Op{Op: "branch", V: 0, Br: "b1", N: 2},
			drv.Op{Op: "put", V: 1, I: "kv", K: "a", Val: nv()}, drv.Op{Op: "commit", V: 1}, drv.Op{Op: "commit", V: 2})
		d.Nodes[0].Locked = true
		d.Add(1, VUUID(1), []int{0}, "", 0).Locked = true
		d.Add(2, VUUID(2), []int{0}, "b1", 0).Locked = true
	}
	fixed := len(steps)
	nops := 1 + r.IntN(6)
	nrepo := 1
	brc := 1
	for i := 0; i < nops; i++ {
		open, locked := d.Open(0), d.LockedNodes(0)
		var cands []string
		cands = append(cands, "repo", "note", "log")
		if len(open) > 0 {
			cands = append(cands, "put", "put", "del", "commit", "inst", "instren", "instdel")
		}
		if len(locked) > 0 {
			cands = append(cands, "newver", "branch")
		}
		if len(locked) >= 2 {
			cands = append(cands, "merge")
		}
		switch pick(r, cands) {
		case "repo":
			idx := d.NextIdx()
			d.Add(idx, VUUID(idx), nil, "", nrepo)
			steps = append(steps, drv.Op{Op: "repo", R: nrepo, N: int64(idx)})
			nrepo++
		case "note":
			steps = append(steps, drv.Op{Op: "note", V: pick(r, d.Sorted()), Val: nv()})
		case "log":
			steps = append(steps, drv.Op{Op: "log", V: pick(r, d.Sorted()), Val: nv()})
		case "put":
			steps = append(steps, drv.Op{Op: "put", V: pick(r, open), I: "kv", K: pick(r, []string{"a", "b"}), Val: nv()})
		case "del":
			steps = append(steps, drv.Op{Op: "del", V: pick(r, open), I: "kv", K: pick(r, []string{"a", "b"})})
		case "commit":
			v := pick(r, open)
			d.Nodes[v].Locked = true
			steps = append(steps, drv.Op{Op: "commit", V: v})
		case "inst":
			steps = append(steps, drv.Op{Op: "inst", R: 0, I: fmt.Sprintf("kv%d", 2+r.IntN(2)), T: "keyvalue", V: pick(r, open)})
		case "instren":
			steps = append(steps, drv.Op{Op: "instren", V: 0, I: "kv2", K2: "kvx"})
		case "instdel":
			steps = append(steps, drv.Op{Op: "instdel", V: 0, I: pick(r, []string{"kv2", "kv3"})})
		case "newver":
			var c []int
			for _, p := range locked {
				if d.CanNewVersion(p) {
					c = append(c, p)
				}
			}
			if len(c) == 0 {
				continue
			}
			p := pick(r, c)
			idx := d.NextIdx()
			d.Add(idx, VUUID(idx), []int{p}, d.Nodes[p].Branch, 0)
			steps = append(steps, drv.Op{Op: "newver", V: p, N: int64(idx)})
		case "branch":
			p := pick(r, locked)
			brc++
			idx := d.NextIdx()
			name := fmt.Sprintf("b%d", brc)
			d.Add(idx, VUUID(idx), []int{p}, name, 0)
			steps = append(steps, drv.Op{Op: "branch", V: p, Br: name, N: int64(idx)})
		case "merge":
			ps := append([]int(nil), locked...)
			r.Shuffle(len(ps), func(i, j int) { ps[i], ps[j] = ps[j], ps[i] })
			ps = ps[:2]
			idx := d.NextIdx()
			d.Add(idx, "", ps, "", 0)
			steps = append(steps, drv.Op{Op: "merge", Ps: ps, N: int64(idx)})
		}
	}
	k := baseKnobs(r)
	k.MutLogJSON = r.IntN(2) == 0
	return &drv.Scenario{Family: "repo+kv", Knobs: k, Steps: steps, Fixed: fixed}
}

var c04Drop = map[string]bool{"MutationID": true, "SavedMutationID": true, "KVStore": true, "LogStore": true}

type c04Runner struct {
	w *drv.World
	x *KVExec
}

// apply executes one scenario step; crashed=true if the lifetime ended by the planned crash.
func (r *c04Runner) apply(op drv.Op) (crashed bool, err error) {
	w, x := r.w, r.x
	switch op.Op {
	case "note", "log":
		if !x.D.Has(op.V) {
			return false, nil
		}
		body := jsonBody(map[string]interface{}{"note": op.Val})
		if op.Op == "log" {
			body = jsonBody(map[string]interface{}{"log": []string{op.Val}})
		}
		_, _, err = w.HTTP("POST", "/api/node/"+x.uuid(op.V)+"/"+op.Op, body)
	case "instren":
		var st int
		st, _, err = w.RPC(nil, "repo", x.uuid(op.V), "rename", op.I, op.K2)
		if err == nil && st >= 200 && st < 300 {
			// the model follows the rename (the point-read oracle addresses instances by name)
			if m, ok := x.Insts[op.I]; ok {
				x.Insts[op.K2], x.InstType[op.K2], x.InstRepo[op.K2] = m, x.InstType[op.I], x.InstRepo[op.I]
				delete(x.Insts, op.I)
				delete(x.InstType, op.I)
				delete(x.InstRepo, op.I)
			}
		}
	case "instdel":
		var st int
		st, _, err = w.RPC(nil, "repo", x.uuid(op.V), "delete", op.I)
		if err == nil && st >= 200 && st < 300 {
			delete(x.Insts, op.I)
			delete(x.InstType, op.I)
			delete(x.InstRepo, op.I)
		}
	default:
		_, _, err = x.ApplyDAGOp(op)
	}
	if errors.Is(err, drv.ErrPlannedCrash) {
		return true, nil
	}
	return false, err
}

func c04Snapshot(w *drv.World) (*Snapshot, error) {
	s, err := TakeSnapshot(w, SnapOpts{BranchHeads: true})
	if err != nil {
		return nil, err
	}
	// cross-world comparison: "Updated" stamps belong to the run, not to the state
	for k, v := range s.Entries {
		if strings.HasPrefix(k, "repos/info") {
			s.Entries[k] = scrubUpdated(v)
		}
	}
	return s, nil
}

func scrubUpdated(js string) string {
	// remove "Updated":"..." pairs textually (values are RFC3339 strings)
	for {
		i := strings.Index(js, `"Updated":"`)
		if i < 0 {
			return js
		}
		j := strings.Index(js[i+11:], `"`)
		if j < 0 {
			return js
		}
		js = js[:i] + `"Upd":0` + js[i+11+j+1:]
	}
}

func (c C04) Execute(sc *drv.Scenario, w *drv.World) (*drv.Violation, error) {
	if sc.Family == "torn-filelog" {
		return c.tornFilelog(sc, w)
	}
	// ---- 1. fault-free reference run ----
	ref := w.Sub("ref")
	defer ref.Close()
	if _, err := ref.Start(); err != nil {
		return nil, err
	}
	rr := &c04Runner{w: ref, x: NewKVExec(ref)}
	var snaps []*Snapshot  // snaps[i] = snapshot after step i (index from Fixed-1)
	var writesAfter []int  // cumulative writes after step i
	var wlabels [][]string // write labels of step i
	for i, op := range sc.Steps {
		if _, err := rr.apply(op); err != nil {
			return nil, err
		}
		if i >= sc.Fixed-1 {
			n, lbls, err := ref.Writes()
			if err != nil {
				return nil, err
			}
			s, err := c04Snapshot(ref)
			if err != nil {
				return nil, err
			}
			snaps = append(snaps, s)
			writesAfter = append(writesAfter, n)
			wlabels = append(wlabels, lbls)
		}
	}
	ref.Discard()
	// ---- 2. every crash point of every operation ----
	rng := drv.NewRNG(sc.Seed ^ 0xc04)
	for j := sc.Fixed; j < len(sc.Steps); j++ {
		si := j - (sc.Fixed - 1) // index into snaps
		nw := writesAfter[si] - writesAfter[si-1]
		for n := 1; n <= nw; n++ {
			for _, side := range []string{"before", "after"} {
				second := rng.IntN(6) == 0
				v, err := c.crashPoint(sc, w, j, n, side, snaps[si-1], snaps[si], wlabels[si], second)
				if err != nil {
					return nil, err
				}
				if v != nil {
					v.Step = j
					return v, nil
				}
			}
		}
		if nw == 0 {
			w.Stats.Probe("op-without-writes")
		}
	}
	return nil, nil
}

func (c C04) crashPoint(sc *drv.Scenario, w *drv.World, j, n int, side string, before, after *Snapshot, labels []string, second bool) (*drv.Violation, error) {
	cw := w.Sub(fmt.Sprintf("c%d-%d%s", j, n, side[:1]))
	defer cw.Close()
	if _, err := cw.Start(); err != nil {
		return nil, err
	}
	r := &c04Runner{w: cw, x: NewKVExec(cw)}
	for i := 0; i < j; i++ {
		if _, err := r.apply(sc.Steps[i]); err != nil {
			return nil, err
		}
	}
	if err := cw.SetFaults(&proto.FaultPlan{CrashAtWrite: n, CrashSide: side}); err != nil {
		return nil, err
	}
	op := sc.Steps[j]
	what := fmt.Sprintf("crash %s write %d of %s (%s)", side, n, op.Op, labelClass(labels, n))
	crashed, err := r.apply(op)
	if err != nil {
		return nil, err
	}
	if !crashed {
		// the write sequence differed from the reference run: count, do not guess
		w.Stats.Probe("crash-point-diverged")
		cw.Discard()
		return nil, nil
	}
	w.Stats.Probe("crash-points")
	if cl := cw.CrashLabel(); cl != "" && n-1 < len(labels) && !strings.HasSuffix(cl, labels[n-1]) {
		w.Stats.Probe("crash-label-differs-from-reference")
	}
	// ---- recovery ----
	if second {
		// a second crash during the recovery start-up (first write of the start-up, if any)
		cw.Faults = &proto.FaultPlan{CrashAtWrite: 1, CrashSide: "after"}
		_, err := cw.Start()
		if err != nil {
			var be *drv.BootError
			if errors.As(err, &be) {
				return c04v("start-up", "start-up failed after "+opSide(op, side), what+"\n"+be.Error()+"\n"+be.Stderr), nil
			}
			if !errors.Is(err, drv.ErrPlannedCrash) {
				return nil, err
			}
			w.Stats.Probe("second-crash-in-recovery")
		} else {
			cw.Stop("kill")
		}
	}
	if _, err := cw.Start(); err != nil {
		var be *drv.BootError
		if errors.As(err, &be) {
			return c04v("start-up", "start-up failed after "+opSide(op, side), what+"\n"+be.Error()+"\n"+be.Stderr), nil
		}
		return nil, err
	}
	if v, err := checkGraphNow(cw, "C04"); err != nil || v != nil {
		if v != nil {
			v.Sig = "after " + opSide(op, side) + ": " + v.Sig
			v.Detail = what + "\n" + v.Detail
		}
		return v, err
	}
	got, err := c04Snapshot(cw)
	if err != nil {
		return nil, err
	}
	dB, dA := before.Diff(got), after.Diff(got)
	if dB != "" && dA != "" {
		return c04v("present-or-absent", "state after "+opSide(op, side)+" is neither before nor after the operation ("+before.DiffClass(got)+")",
			what+"\n--- versus state BEFORE the operation:\n"+dB+"\n--- versus state AFTER the operation:\n"+dA), nil
	}
	present := dA == ""
	if present {
		w.Stats.Probe("interrupted-op-present")
	} else {
		w.Stats.Probe("interrupted-op-absent")
	}
	// ---- the client retries the interrupted operation, then the rest of the workload ----
	r2 := &c04Runner{w: cw, x: r.x}
	if !present {
		if _, err := r2.apply(op); err != nil {
			return nil, err
		}
		got2, err := c04Snapshot(cw)
		if err != nil {
			return nil, err
		}
		if d := after.Diff(got2); d != "" && retryComparable(op) {
			return c04v("retry", "retrying "+op.Op+" after "+opSide(op, side)+" does not complete it ("+after.DiffClass(got2)+")", what+"\n"+d), nil
		}
		if op.Op == "newver" || op.Op == "branch" {
			if _, ok := got2.Entries["GET /api/node/"+VUUID(int(op.N))+"/status "]; !ok {
				return c04v("retry", "retrying "+op.Op+" after "+opSide(op, side)+" does not create the version", what+"\nversion "+VUUID(int(op.N))+" absent after the retry"), nil
			}
		}
	} else {
		r2.x.noteApplied(op)
	}
	for i := j + 1; i < len(sc.Steps); i++ {
		if _, err := r2.apply(sc.Steps[i]); err != nil {
			return nil, err
		}
	}
	if v, err := checkGraphNow(cw, "C04"); err != nil || v != nil {
		if v != nil {
			v.Sig = "continuing after " + opSide(op, side) + ": " + v.Sig
			v.Detail = what + "\n" + v.Detail
		}
		return v, err
	}
	if v, err := r2.x.CheckPointReads("C04"); err != nil || v != nil {
		if v != nil {
			v.Sig = "continuing after " + opSide(op, side) + ": " + v.Sig
			v.Detail = what + "\n" + v.Detail
		}
		return v, err
	}
	if sc.Knobs.MutLogJSON {
		if v, err := r2.x.CheckMutationLogs("C04"); err != nil || v != nil {
			if v != nil {
				v.Sig = "continuing after " + opSide(op, side) + ": " + v.Sig
				v.Detail = what + "\n" + v.Detail
			}
			return v, err
		}
	}
	// ---- torn JSON mutation log ----
	if sc.Knobs.MutLogJSON {
		if v, err := c.tornJSONLog(cw, r2.x, what); err != nil || v != nil {
			return v, err
		}
	}
	cw.Discard()
	return nil, nil
}

// retryComparable: operations whose retried result is byte-comparable with the reference
// (those that draw fresh random UUIDs are not).
func retryComparable(op drv.Op) bool {
	switch op.Op {
	case "put", "del", "commit", "note", "log", "instren", "instdel":
		return true
	}
	// operations that allocate version/instance ids or draw random UUIDs legitimately get other
	// ids on retry (a crash may burn an id); for them the retry must just be accepted and keep
	// the graph well formed (checked right after)
	return false
}

func opSide(op drv.Op, side string) string { return "crash " + side + " a write of " + op.Op }

func labelClass(labels []string, n int) string {
	if n-1 < len(labels) {
		l := labels[n-1]
		f := strings.Fields(l)
		if len(f) >= 2 && len(f[1]) > 12 {
			return f[0] + " " + f[1][:12] + "..."
		}
		return clip(l, 40)
	}
	return "?"
}

func c04v(oracle, sig, detail string) *drv.Violation {
	return &drv.Violation{Prop: "C04", Oracle: oracle, Sig: sig, Detail: detail}
}

// noteApplied records in the model that op took effect although the harness never saw the reply.
func (x *KVExec) noteApplied(op drv.Op) {
	switch op.Op {
	case "put":
		if m := x.Insts[op.I]; m != nil && x.D.Has(op.V) {
			m.Put(op.V, op.K, op.Val)
		}
	case "del":
		if m := x.Insts[op.I]; m != nil && x.D.Has(op.V) {
			m.Delete(op.V, op.K)
		}
	case "commit":
		if x.D.Has(op.V) {
			x.D.Nodes[op.V].Locked = true
		}
	case "newver", "branch":
		if x.D.Has(op.V) && !x.D.Has(int(op.N)) {
			p := x.D.Nodes[op.V]
			br := p.Branch
			if op.Op == "branch" {
				br = op.Br
			}
			x.D.Add(int(op.N), VUUID(int(op.N)), []int{op.V}, br, p.Repo)
		}
	case "inst":
		if _, ok := x.Insts[op.I]; !ok {
			x.Insts[op.I] = NewKVModel(op.N != 1)
			x.InstRepo[op.I] = op.R
			x.InstType[op.I] = op.T
		}
	case "repo":
		x.D.Add(int(op.N), VUUID(int(op.N)), nil, "", op.R)
		x.RepoRoot[op.R] = int(op.N)
	case "instren":
		if m, ok := x.Insts[op.I]; ok {
			x.Insts[op.K2], x.InstType[op.K2], x.InstRepo[op.K2] = m, x.InstType[op.I], x.InstRepo[op.I]
			delete(x.Insts, op.I)
			delete(x.InstType, op.I)
			delete(x.InstRepo, op.I)
		}
	case "instdel":
		delete(x.Insts, op.I)
		delete(x.InstType, op.I)
		delete(x.InstRepo, op.I)
	}
}

// tornJSONLog: cut each JSON mutation log file at every byte length inside its last
// record (between lifetimes); the mutations endpoint must return exactly the complete records.
func (c C04) tornJSONLog(cw *drv.World, x *KVExec, what string) (*drv.Violation, error) {
	dir := filepath.Join(cw.Dir, "mutjson")
	files, _ := filepath.Glob(filepath.Join(dir, "*.plog"))
	if len(files) == 0 {
		return nil, nil
	}
	f := files[0]
	// which (instance, version) is it?  file name = <dataUUID>-<versionUUID>.plog
	base := strings.TrimSuffix(filepath.Base(f), ".plog")
	parts := strings.SplitN(base, "-", 2)
	if len(parts) != 2 {
		return nil, nil
	}
	vu := parts[1]
	full, err := os.ReadFile(f)
	if err != nil || len(full) == 0 {
		return nil, nil
	}
	// reference: complete log as served now
	st, refBody, err := cw.HTTP("GET", "/api/node/"+vu+"/kv/mutations", nil)
	if err != nil {
		return nil, err
	}
	if st != 200 {
		return nil, nil
	}
	refN := strings.Count(string(refBody), `"Action"`)
	if refN == 0 {
		return nil, nil
	}
	if err := cw.Stop("kill"); err != nil {
		return nil, err
	}
	// find the start of the last record by trying prefixes: the record count drops by one
	// exactly when the cut enters the last record.  Sample up to 12 cut lengths in the tail.
	tail := 80
	if tail > len(full) {
		tail = len(full)
	}
	cuts := []int{len(full) - 1, len(full) - 2, len(full) - tail/2, len(full) - tail + 1}
	for _, cut := range cuts {
		if cut <= 0 || cut >= len(full) {
			continue
		}
		if err := os.WriteFile(f, full[:cut], 0644); err != nil {
			return nil, err
		}
		if _, err := cw.Start(); err != nil {
			var be *drv.BootError
			if errors.As(err, &be) {
				os.WriteFile(f, full, 0644)
				return c04v("torn-json-log", "start-up failed with a torn JSON mutation log", what+"\n"+be.Error()), nil
			}
			return nil, err
		}
		cw.Stats.Faults["torn-log"]++
		st, body, err := cw.HTTP("GET", "/api/node/"+vu+"/kv/mutations", nil)
		if err != nil {
			return nil, err
		}
		n := strings.Count(string(body), `"Action"`)
		okJSON := st == 200 && jsonValid(body)
		if st == 200 && (!okJSON || n > refN || n < refN-1 || !isPrefixRecords(body, refBody)) {
			os.WriteFile(f, full, 0644)
			return c04v("torn-json-log", "torn JSON mutation log yields a truncated, padded or invented record",
				fmt.Sprintf("%s\nlog file %s cut to %d of %d bytes\ncomplete log: %s\nserved after cut: %d %s", what, filepath.Base(f), cut, len(full), trunc(refBody), st, trunc(body))), nil
		}
		if err := cw.Stop("kill"); err != nil {
			return nil, err
		}
	}
	os.WriteFile(f, full, 0644)
	return nil, nil
}

func (C04) NonTrivial(sc *drv.Scenario, st *drv.RunStats) bool {
	return st.Probes["crash-points"] > 0 || st.Probes["torn-log-cut-checked"] >= 8
}

// tornFilelog: see Generate.  Oracle: every start-up succeeds and no read panics or kills the process; a log cut
// inside its last record reads exactly like the log cut at the start of that record (the torn record is
// ignored: "exactly the records that were completely written"), and the intact log rebuilds the model's mappings.
func (c C04) tornFilelog(sc *drv.Scenario, w *drv.World) (*drv.Violation, error) {
	if _, err := w.Start(); err != nil {
		return nil, err
	}
	x := NewLabelExec(w, "C04")
	var prevMap map[uint64]uint64 // mapping before the last operation that was applied
	for i, op := range sc.Steps {
		w.CurStep = i
		if op.Op == "tornlog" {
			break
		}
		var before map[uint64]uint64
		if x.M != nil && x.M.Versions[0] != nil {
			before = map[uint64]uint64{}
			for k, v := range x.M.Versions[0].Map {
				before[k] = v
			}
		}
		nm := len(x.MutIDs)
		_, v, err := x.Apply(op)
		if err != nil {
			return nil, err
		}
		if v != nil && v.Oracle != "write-ack" {
			v.Step = i
			return v, nil
		}
		if len(x.MutIDs) > nm {
			prevMap = before
		}
	}
	if x.M == nil || prevMap == nil {
		w.Discard()
		return nil, nil
	}
	if err := w.Barrier(); err != nil {
		return nil, err
	}
	lv := x.M.Versions[0]
	mapLines := func(m map[uint64]uint64) string {
		var ls []string
		for sv := range lv.SVSizes() {
			b := m[sv]
			if b == 0 {
				b = sv
			}
			if b != sv {
				ls = append(ls, fmt.Sprintf("%d %d", sv, b))
			}
		}
		sort.Strings(ls)
		return strings.Join(ls, "\n")
	}
	full := mapLines(lv.Map)
	if err := w.Stop("kill"); err != nil {
		return nil, err
	}
	logDir := filepath.Join(w.Dir, "log")
	ents, _ := os.ReadDir(logDir)
	var file string
	var orig []byte
	for _, e := range ents {
		b, err := os.ReadFile(filepath.Join(logDir, e.Name()))
		if err == nil && len(b) > len(orig) && strings.HasSuffix(e.Name(), x.uuid(0)) {
			file, orig = filepath.Join(logDir, e.Name()), b
		}
	}
	if file == "" {
		w.Stats.Probe("no-mutation-log-file")
		return nil, nil
	}
	// record boundaries: 2-byte type, 4-byte length, payload
	var starts []int
	for pos := 0; pos+6 <= len(orig); {
		starts = append(starts, pos)
		pos += 6 + int(binary.LittleEndian.Uint32(orig[pos+2:pos+6]))
	}
	if len(starts) == 0 {
		return nil, nil
	}
	last := starts[len(starts)-1]
	var refState, refMappings string
	viol := func(oracle, sig, detail string) *drv.Violation {
		return &drv.Violation{Prop: "C04", Oracle: oracle, Sig: sig, Detail: detail, Step: len(sc.Steps) - 1}
	}
	for cut := last; cut <= len(orig); cut++ {
		if err := os.WriteFile(file, orig[:cut], 0644); err != nil {
			return nil, fmt.Errorf("%w: %v", drv.ErrInfra, err)
		}
		desc := fmt.Sprintf("mutation log of %d bytes (%d records, last record at %d) cut to %d bytes", len(orig), len(starts), last, cut)
		_, err := w.Start()
		var be *drv.BootError
		if errors.As(err, &be) {
			return viol("start-up", "start-up fails on a torn mutation log", desc+"\n"+be.Error()+"\n"+be.Stderr), nil
		}
		if err != nil {
			if errors.Is(err, drv.ErrChildDied) {
				d := strings.Join(w.Stats.ChildDeaths, "\n")
				return viol("no-crash", "server dies at start-up on a torn mutation log: "+drv.PanicSig(d), desc+"\n"+d), nil
			}
			return nil, err
		}
		resps, err := w.Seq([]proto.Req{drv.GET(x.base(0) + "/mappings"), drv.GET(x.base(0) + "/raw/0_1_2/32_16_16/0_0_0"), drv.GET(x.base(0) + "/listlabels")})
		if err != nil {
			if errors.Is(err, drv.ErrChildDied) {
				d := strings.Join(w.Stats.ChildDeaths, "\n")
				return viol("no-crash", "server dies reading a version whose mutation log is torn: "+drv.PanicSig(d), desc+"\n"+d), nil
			}
			return nil, err
		}
		for _, rp := range resps {
			if isPanic500(rp) {
				return viol("no-crash", "a read panics on a torn mutation log: "+drv.PanicSig(string(rp.Body)), desc+"\n"+trunc(rp.Body)), nil
			}
		}
		// Relational oracle: a log cut INSIDE its last record must read exactly like the log cut AT the start of
		// that record (the torn record is ignored, nothing is invented); the intact log reads like the model.
		state := ""
		for _, rp := range resps {
			state += fmt.Sprintf("%d %x\n", rp.Status, rp.Body)
		}
		served := func(rp proto.Resp) string {
			var ls []string
			for _, l := range strings.Split(strings.TrimSpace(string(rp.Body)), "\n") {
				if f := strings.Fields(l); len(f) == 2 && f[0] != f[1] && f[1] != "0" {
					ls = append(ls, f[0]+" "+f[1])
				}
			}
			sort.Strings(ls)
			return strings.Join(ls, "\n")
		}
		switch {
		case cut == last:
			refState, refMappings = state, served(resps[0])
		case cut < len(orig):
			if state != refState {
				return viol("log-records", "a mutation log torn inside its last record reads differently from the log without that record",
					fmt.Sprintf("%s\nanswers (mappings, raw, listlabels): %d %d %d, %s %s\nserved mappings:\n%s\nmappings served with the record removed entirely:\n%s", desc,
						resps[0].Status, resps[1].Status, resps[2].Status, trunc(resps[1].Body), trunc(resps[2].Body), served(resps[0]), refMappings)), nil
			}
		default:
			if resps[0].Status == 200 && served(resps[0]) != full {
				return viol("log-records", "the intact mutation log does not rebuild the mappings of the acknowledged operations",
					fmt.Sprintf("%s\nserved mappings:\n%s\nmodel:\n%s", desc, served(resps[0]), full)), nil
			}
		}
		w.Stats.Probe("torn-log-cut-checked")
		w.Stats.Faults["torn-filelog"]++
		if err := w.Stop("kill"); err != nil {
			return nil, err
		}
	}
	w.Discard()
	return nil, nil
}
