package props

import (
	"encoding/json"
	"math/rand/v2"
	"time"

	"verif/sim/drv"
)

// baseKnobs draws the per-run knobs every property randomises.
func baseKnobs(r *rand.Rand) drv.Knobs {
	k := drv.Knobs{
		MapSeed:   1 + r.Uint64N(1<<40),
		UUIDSeed:  1 + r.Uint64N(1<<40),
		SchedSeed: 1 + r.Uint64N(1<<40),
		Bias:      r.IntN(3), // 0 uniform, 1 sticky, 2 priority (PCT-like)
	}
	switch r.IntN(4) {
	case 0:
		k.IIDStart = 0
	case 1:
		k.IIDStart = uint32(1 + r.IntN(1000))
	case 2:
		k.IIDStart = 0x7ffffff0 + uint32(r.IntN(8))
	case 3:
		k.IIDStart = 100000 + uint32(r.IntN(1<<20))
	}
	switch r.IntN(3) {
	case 0:
		k.MutIDStart = 0
	case 1:
		k.MutIDStart = 1000*uint64(1+r.IntN(50)) - uint64(r.IntN(3))
	case 2:
		k.MutIDStart = 1_000_000_000 + uint64(r.IntN(1000))
	}
	return k
}

func budget(tier string, quickRuns, thoroughRuns int, quickWall, thoroughWall time.Duration) (int, time.Duration) {
	if tier == "thorough" {
		return thoroughRuns, thoroughWall
	}
	return quickRuns, quickWall
}

var commonAssumptions = []string{
	"Badger's own crash safety and the Go runtime are trusted; a crash is process death (os.Exit in the wrapping engine), not power loss",
	"interleavings are decided at storage/log calls only; goroutines woken inside one scheduling step run in parallel until their next store call",
	"the wrapping engines (simkv/simlog) are thin delegates over the real badger/filelog drivers and are trusted",
	"child built with go1.26.8 (testing/synctest fake clock, scheduler metrics) and a runtime build overlay that pins map iteration order",
	"sampling, not enumeration: a clean batch is evidence, not proof",
}

func jsonValid(b []byte) bool { return json.Valid(b) }

// isPrefixRecords: got (a JSON array) must consist of a prefix of ref's records.
func isPrefixRecords(got, ref []byte) bool {
	var g, r []json.RawMessage
	if json.Unmarshal(got, &g) != nil || json.Unmarshal(ref, &r) != nil {
		return false
	}
	if len(g) > len(r) {
		return false
	}
	for i := range g {
		if string(g[i]) != string(r[i]) {
			return false
		}
	}
	return true
}

// lockSwarm: every third run of a check with concurrent requests also makes DVID's own mutex
// acquisitions scheduling points (Knobs.LockYield); decided by the run index so that the
// scenario's seeded draws are the same with and without it.
func lockSwarm(sc *drv.Scenario, idx int) *drv.Scenario {
	if idx%3 == 2 {
		sc.Knobs.LockYield = true
	}
	return sc
}
