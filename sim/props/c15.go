package props

import (
	"bytes"
	"encoding/json"
	"encoding/hex"
	"errors"
	"fmt"
	"math/rand/v2"
	"os"
	"os/exec"
	"strings"
	"time"

	"verif/sim/drv"
	"verif/sim/proto"
)

// C15 — the serialization envelope round-trips and detects corruption (fault clauses through the simulated disk).
type C15 struct{ drv.CheckBase }

func init() { drv.Register(&C15{}) }

func (C15) ID() string    { return "C15" }
func (C15) Level() string { return "fault_enumeration" }
func (C15) Rule() string {
	return "each run = one instance (keyvalue, uint8blk or labelmap) created with a seeded Compression in {none, snappy, lz4, gzip} x Checksum in {none, crc32}; values (empty, 1 byte, incompressible, highly compressible, up to ~1 MB in the thorough tier) are written through the HTTP API. " +
		"Fault-free clause: every value reads back identical, also after a clean restart (a sample of the round-trip clause, which as a whole is a pure function and not claimed). " +
		"Fault clause: the stored bytes of a small value are taken from the store and EVERY single-bit flip, every single-byte replacement and every truncation length of them " +
		"(thorough tier: all; quick tier: every position for truncation and byte replacement, bit flips sampled to a budget) is injected by the wrapping storage engine on the read path, one at a time, and every value-returning read of the type is issued. " +
		"Oracle: no read may be answered by a recovered panic (500 'Panic detected') and the process may not die; with CRC32 an alteration inside the payload region (after the format byte and the checksum) must be answered with an error status, never with 200; " +
		"without checksum any status is accepted. A last family corrupts the repository metadata blobs on the start-up read path: start-up must either succeed or report an error, never die with a panic. " +
		"non-trivial = at least 50 corruptions of at least two kinds actually fired; distinct = distinct (steps, knobs) hash"
}
func (C15) Assumptions() []string { return commonAssumptions }
func (C15) Budget(tier string) (int, time.Duration) {
	return budget(tier, 48, 1500, 100*time.Second, 30*time.Minute)
}

func (C15) AllowsPanic500(sc *drv.Scenario) bool { return true } // judged here, under C15
func (C15) ExpectsDeath(sc *drv.Scenario) bool   { return true }

var c15Comp = []string{"none", "snappy", "lz4", "gzip"}

func (C15) Generate(r *rand.Rand, tier string, idx int) *drv.Scenario {
	typ := pick(r, []string{"keyvalue", "keyvalue", "uint8blk", "labelmap"})
	comp := c15Comp[idx%len(c15Comp)]
	if typ == "labelmap" && (comp == "snappy" || comp == "lz4") {
		// labelmap's block streams only transcode uncompressed and gzip-stored blocks: snappy is refused,
		// lz4 fails its own size test on healthy data (documented as an observation, not an envelope matter)
		comp = pick(r, []string{"none", "gzip"})
	}
	sum := []string{"none", "crc32", "crc32"}[(idx/len(c15Comp))%3]
	fam := "value"
	if r.IntN(8) == 0 {
		fam = "metadata"
	}
	budgetBits := int64(400)
	if tier == "thorough" {
		budgetBits = 1 << 30
	}
	steps := []drv.Op{{Op: "c15", T: typ, K: comp, K2: sum, Mode: fam, N: int64(r.Uint64N(1 << 40)), M: budgetBits}}
	return &drv.Scenario{Family: fam + "/" + typ + "/" + comp + "/" + sum, Knobs: baseKnobs(r), Steps: steps, Fixed: 1}
}

type c15Read struct {
	Req   proto.Req
	Want  []byte // fault-free body
	St    int
	Other bool // does not read the value that is corrupted: must answer as without faults
}

func isPanic500(rp proto.Resp) bool {
	return rp.Status == 500 && bytes.Contains(rp.Body, []byte("Panic detected"))
}

func (C15) Execute(sc *drv.Scenario, w *drv.World) (*drv.Violation, error) {
	if _, err := w.Start(); err != nil {
		return nil, err
	}
	op := sc.Steps[0]
	r := drv.NewRNG(uint64(op.N)*0x9e3779b97f4a7c15 + 15)
	typ, comp, sum := op.T, op.K, op.K2
	viol := func(oracle, sig, detail string) *drv.Violation {
		return &drv.Violation{Prop: "C15", Oracle: oracle, Sig: sig, Detail: fmt.Sprintf("instance %s Compression=%s Checksum=%s: %s", typ, comp, sum, detail)}
	}
	u := VUUID(0)
	st, body, err := w.HTTP("POST", "/api/repos", jsonBody(map[string]interface{}{"alias": "srepo", "description": "sim", "root": u}))
	if err != nil {
		return nil, err
	}
	if st != 200 {
		return nil, fmt.Errorf("%w: cannot create repo: %d %s", drv.ErrInfra, st, body)
	}
	cfg := map[string]interface{}{"typename": typ, "dataname": "d", "Compression": comp, "Checksum": sum}
	bs := 4
	switch typ {
	case "uint8blk":
		bs = pick(r, []int{4, 8})
		cfg["BlockSize"] = fmt.Sprintf("%d,%d,%d", bs, bs, bs)
	case "labelmap":
		bs = 16
		cfg["BlockSize"] = "16,16,16"
		cfg["MaxDownresLevel"] = "0"
	}
	st, body, err = w.HTTP("POST", "/api/repo/"+u+"/instance", jsonBody(cfg))
	if err != nil {
		return nil, err
	}
	if st != 200 {
		return nil, fmt.Errorf("%w: cannot create instance %v: %d %s", drv.ErrInfra, cfg, st, body)
	}
	base := "/api/node/" + u + "/d"
	// ---- write values ----
	mkval := func(kind string) []byte {
		switch kind {
		case "one":
			return []byte{byte(1 + r.IntN(255))}
		case "small":
			b := make([]byte, 3+r.IntN(20))
			for i := range b {
				b[i] = byte(r.IntN(256))
			}
			return b
		case "compressible":
			return bytes.Repeat([]byte{byte('a' + r.IntN(20)), byte('A' + r.IntN(20))}, 20+r.IntN(200))
		case "incompressible":
			b := make([]byte, 200+r.IntN(800))
			for i := range b {
				b[i] = byte(r.IntN(256))
			}
			return b
		case "large": // high-entropy and > 1 MB: does not compress under any of the formats
			b := make([]byte, 1100000+r.IntN(200000))
			for i := range b {
				b[i] = byte(r.IntN(256))
			}
			return b
		}
		return nil
	}
	var reads []c15Read
	var target string // substring of the raw key of the value to corrupt (hex)
	switch typ {
	case "keyvalue":
		// values are JSON strings so that the JSON range/list answers are well-formed documents
		js := func(b []byte) []byte { return []byte(`"` + hex.EncodeToString(b) + `"`) }
		keys := map[string][]byte{"kone": []byte("7"), "ktarget": js(mkval(pick(r, []string{"small", "one", "small"}))), "kcomp": []byte(`"` + strings.Repeat("ab", 100+r.IntN(200)) + `"`), "kinc": js(mkval("incompressible"))}
		if r.IntN(3) == 0 {
			keys["ktarget"] = []byte(`"` + strings.Repeat("z", 30+r.IntN(60)) + `"`)
		}
		if comp == "lz4" || r.IntN(3) == 0 {
			keys["zlarge"] = mkval("large") // raw bytes, outside the key range of the JSON range reads
		}
		for k, v := range keys {
			st, body, err := w.HTTP("POST", base+"/key/"+k, v)
			if err != nil {
				return nil, err
			}
			if st != 200 {
				return viol("write-ack", "valid value refused", fmt.Sprintf("POST key/%s (%d bytes) -> %d %s", k, len(v), st, trunc(body))), nil
			}
		}
		for k := range keys {
			reads = append(reads, c15Read{Req: drv.GET(base + "/key/" + k), Other: k != "ktarget"})
		}
		reads = append(reads, c15Read{Req: drv.GET(base + "/keyrangevalues/k/l?json=true")},
			c15Read{Req: getb(base+"/keyvalues?json=true", []byte(`["ktarget","kone"]`))})
		target = hex.EncodeToString([]byte("ktarget"))
	case "uint8blk":
		n := bs * bs * bs
		blk := make([]byte, n)
		if r.IntN(2) == 0 {
			for i := range blk {
				blk[i] = byte(1 + i%3)
			}
		} else {
			for i := range blk {
				blk[i] = byte(r.IntN(256))
			}
		}
		st, body, err := w.HTTP("POST", fmt.Sprintf("%s/raw/0_1_2/%d_%d_%d/0_0_0", base, bs, bs, bs), blk)
		if err != nil {
			return nil, err
		}
		if st != 200 {
			return viol("write-ack", "valid value refused", fmt.Sprintf("POST raw block -> %d %s", st, trunc(body))), nil
		}
		reads = []c15Read{
			{Req: drv.GET(fmt.Sprintf("%s/raw/0_1_2/%d_%d_%d/0_0_0", base, bs, bs, bs))},
			{Req: drv.GET(fmt.Sprintf("%s/raw/0_1/%d_%d/0_0_0", base, bs, bs))},
			{Req: drv.GET(base + "/blocks/0_0_0/1")},
			{Req: drv.GET(fmt.Sprintf("%s/subvolblocks/%d_%d_%d/0_0_0?compression=uncompressed", base, bs, bs, bs))},
			{Req: drv.GET(base + "/specificblocks?compression=uncompressed&blocks=0,0,0")},
		}
	case "labelmap":
		data := u64sToBytes(genLayout(r, [3]int{16, 16, 16}, []uint64{3, 4}, false))
		st, body, err := w.HTTP("POST", base+"/raw/0_1_2/16_16_16/0_0_0", data)
		if err != nil {
			return nil, err
		}
		if st != 200 {
			return viol("write-ack", "valid value refused", fmt.Sprintf("POST raw labels -> %d %s", st, trunc(body))), nil
		}
		reads = []c15Read{
			{Req: drv.GET(base + "/raw/0_1_2/16_16_16/0_0_0")},
			{Req: drv.GET(base + "/label/1_1_1")},
			{Req: drv.GET(base + "/specificblocks?blocks=0,0,0")},
			{Req: drv.GET(base + "/sparsevol/3?format=rles")},
			{Req: drv.GET(base + "/size/3")},
		}
	}
	// ---- fault-free clause ----
	fetch := func() ([]proto.Resp, error) {
		var rq []proto.Req
		for _, rd := range reads {
			rq = append(rq, rd.Req)
		}
		return w.Seq(rq)
	}
	resps, err := fetch()
	if err != nil {
		return nil, err
	}
	for i, rp := range resps {
		if rp.Status != 200 {
			return viol("round-trip", "fault-free read fails", fmt.Sprintf("%s %s -> %d %s", reads[i].Req.Method, reads[i].Req.URL, rp.Status, trunc(rp.Body))), nil
		}
		reads[i].Want, reads[i].St = rp.Body, rp.Status
	}
	if typ == "keyvalue" {
		// a range answer that holds every value before sending it (protobuf) must carry each value intact
		for _, u := range []string{base + "/keyrangevalues/k/l", base + "/keyrangevalues/k/l?tar=true"} {
			st, body, err := w.HTTP("GET", u, nil)
			if err != nil {
				return nil, err
			}
			if st != 200 {
				return viol("round-trip", "fault-free read fails", fmt.Sprintf("GET %s -> %d %s", u, st, trunc(body))), nil
			}
			for _, rd := range reads {
				if strings.Contains(rd.Req.URL, "/key/k") && !bytes.Contains(body, rd.Want) {
					return viol("round-trip", "range answer does not carry a stored value intact", fmt.Sprintf("GET %s (%d bytes) lacks the %d bytes returned by GET %s: %s", u, len(body), len(rd.Want), rd.Req.URL, trunc(rd.Want))), nil
				}
			}
		}
		w.Stats.Probe("range-vs-point-values-checked")
	}
	if _, err := w.Restart("clean"); err != nil {
		return nil, err
	}
	resps, err = fetch()
	if err != nil {
		return nil, err
	}
	for i, rp := range resps {
		if rp.Status != reads[i].St || !bytes.Equal(rp.Body, reads[i].Want) {
			return viol("round-trip", "value reads differently after a restart", fmt.Sprintf("%s %s: %d %s, before the restart %d %s", reads[i].Req.Method, reads[i].Req.URL, rp.Status, trunc(rp.Body), reads[i].St, trunc(reads[i].Want))), nil
		}
	}
	w.Stats.Probe("round-trip-checked")

	// ---- metadata family ----
	if op.Mode == "metadata" {
		// Every round starts from a copy of the same healthy directory: a start-up that got through with a
		// damaged in-memory value may persist it, which is outside this property.
		if err := w.Stop("clean"); err != nil {
			return nil, err
		}
		orig := w.Dir + ".orig"
		if out, err := exec.Command("cp", "-a", w.Dir, orig).CombinedOutput(); err != nil {
			return nil, fmt.Errorf("%w: cp: %v %s", drv.ErrInfra, err, out)
		}
		defer os.RemoveAll(orig)
		kinds := []string{"bit", "byte", "trunc"}
		for i := 0; i < 12; i++ {
			os.RemoveAll(w.Dir)
			if out, err := exec.Command("cp", "-a", orig, w.Dir).CombinedOutput(); err != nil {
				return nil, fmt.Errorf("%w: cp: %v %s", drv.ErrInfra, err, out)
			}
			c := proto.Corrupt{KeyMatch: "", Kind: pick(r, kinds), Pos: r.IntN(400), Val: byte(r.IntN(256)), Nth: 1 + r.IntN(6)}
			if c.Kind == "bit" {
				c.Pos = r.IntN(1600)
			}
			w.Faults = &proto.FaultPlan{Corrupt: []proto.Corrupt{c}}
			_, err := w.Start()
			var be *drv.BootError
			switch {
			case err == nil:
				w.Stats.Probe("boot-with-corrupt-metadata-succeeded")
				// the repositories listing must at least be answerable without a panic
				if resps, err := w.Seq([]proto.Req{drv.GET("/api/repos/info")}); err == nil && isPanic500(resps[0]) {
					return viol("no-crash", "repos/info panics after a start-up that read a corrupted metadata value: "+drv.PanicSig(string(resps[0].Body)), fmt.Sprintf("corruption %+v\n%s", c, trunc(resps[0].Body))), nil
				} else if err != nil && errors.Is(err, drv.ErrChildDied) {
					d := strings.Join(w.Stats.ChildDeaths, "\n")
					return viol("no-crash", "server dies after a start-up that read a corrupted metadata value: "+drv.PanicSig(d), fmt.Sprintf("corruption %+v\n%s", c, d)), nil
				} else if err != nil {
					return nil, err
				}
			case errors.As(err, &be):
				if strings.Contains(be.Stderr, "panic: ") || strings.Contains(be.Stderr, "[signal SIG") || strings.Contains(be.Err, "panic") {
					return viol("no-crash", "start-up panics on a corrupted metadata value: "+drv.PanicSig(be.Stderr+be.Err), fmt.Sprintf("corruption %+v of the %d-th value read at start-up\n%s\n%s", c, c.Nth, be.Error(), be.Stderr)), nil
				}
				w.Stats.Probe("boot-with-corrupt-metadata-reported-error")
			case errors.Is(err, drv.ErrChildDied):
				d := strings.Join(w.Stats.ChildDeaths, "\n")
				return viol("no-crash", "start-up dies on a corrupted metadata value: "+drv.PanicSig(d), fmt.Sprintf("corruption %+v of the %d-th value read at start-up\n%s", c, c.Nth, d)), nil
			default:
				return nil, err
			}
			w.Stats.Faults["kv-corrupt-"+c.Kind]++
			if err := w.Stop("kill"); err != nil {
				return nil, err
			}
		}
		w.Discard()
		return nil, nil
	}

	// ---- fault clause: enumerate corruptions of one stored value ----
	dump, err := w.Seq([]proto.Req{{Client: "c0", Kind: "store", Store: &proto.StoreOp{Op: "rawdump", Data: "d", UUID: u}}})
	if err != nil {
		return nil, err
	}
	if dump[0].Status != 200 {
		return nil, fmt.Errorf("%w: rawdump failed: %s", drv.ErrInfra, dump[0].Err)
	}
	var rawKey string
	var stored []byte
	lmClass := pick(r, []string{"ba", "ba", "bb"})
	if typ == "labelmap" {
		w.Stats.Probe("labelmap-target-class-" + lmClass)
	}
	for i, k := range dump[0].Keys {
		v := dump[0].Values[i]
		if len(v) == 0 {
			continue
		}
		switch typ {
		case "keyvalue":
			if strings.Contains(k, target) {
				rawKey, stored = k, v
			}
		case "labelmap":
			// raw key = prefix, 4-byte instance id, key class ...: 0xba voxel block, 0xbb label index
			if len(k) >= 12 && k[10:12] == lmClass && len(v) > len(stored) {
				rawKey, stored = k, v
			}
		default:
			// the voxel block: the largest value of the instance
			if len(v) > len(stored) {
				rawKey, stored = k, v
			}
		}
	}
	if rawKey == "" {
		return nil, fmt.Errorf("%w: stored value not found in raw dump (%d keys)", drv.ErrInfra, len(dump[0].Keys))
	}
	L := len(stored)
	// what the envelope of this value really says (labelmap stores its blocks without checksum whatever the instance setting)
	hdr := 1
	hasCRC := (stored[0]>>3)&3 == 1
	if hasCRC {
		hdr = 5
	}
	if hasCRC {
		w.Stats.Probe("stored-with-crc32")
	} else {
		w.Stats.Probe("stored-without-checksum")
	}
	type corr struct {
		kind string
		pos  int
	}
	var plan []corr
	for n := 0; n < L; n++ {
		plan = append(plan, corr{"trunc", n}, corr{"byte", n})
	}
	var bits []corr
	for b := 0; b < 8*L; b++ {
		bits = append(bits, corr{"bit", b})
	}
	if int64(len(bits)) > op.M {
		// keep every bit of the header and the first payload bytes, sample the rest
		keep := bits[:min(len(bits), 8*(hdr+6))]
		rest := bits[len(keep):]
		r.Shuffle(len(rest), func(i, j int) { rest[i], rest[j] = rest[j], rest[i] })
		bits = append(keep, rest[:min(len(rest), int(op.M)-len(keep))]...)
	}
	plan = append(plan, bits...)
	if len(plan) > 6000 {
		r.Shuffle(len(plan), func(i, j int) { plan[i], plan[j] = plan[j], plan[i] })
		plan = plan[:6000]
	}
	fired := map[string]int{}
	for _, c := range plan {
		if comp == "lz4" {
			// The top byte of the LZ4 size prefix: raising it makes every read allocate and return up to 4 GB
			// (an error or wrong data, never a crash; without checksum that is allowed). Only +16/32/64 MB are injected.
			top := hdr + 3
			if (c.kind == "byte" && c.pos == top) || (c.kind == "bit" && c.pos/8 == top && c.pos%8 > 2) {
				w.Stats.Probe("lz4-size-prefix-inflation-skipped")
				continue
			}
		}
		cc := proto.Corrupt{KeyMatch: rawKey, Kind: c.kind, Pos: c.pos, Val: 0x5a}
		if err := w.SetFaults(&proto.FaultPlan{Corrupt: []proto.Corrupt{cc}}); err != nil {
			return nil, err
		}
		desc := fmt.Sprintf("stored value of %d bytes (format byte %#02x), corruption %s at %d", L, stored[0], c.kind, c.pos)
		inPayload := (c.kind == "trunc" && c.pos >= hdr) || (c.kind == "byte" && c.pos >= hdr) || (c.kind == "bit" && c.pos/8 >= hdr)
		resps, err := fetch()
		if err != nil {
			if errors.Is(err, drv.ErrChildDied) {
				d := strings.Join(w.Stats.ChildDeaths, "\n")
				if typ == "keyvalue" || (hasCRC && inPayload) {
					return viol("no-crash", "a corrupted stored value kills the server: "+drv.PanicSig(d), desc+"\n"+d), nil
				}
				// garbage the envelope cannot detect reached the data type's own parser and took the process down:
				// that is C20's ground (no request may terminate the server), reported under its signature
				return &drv.Violation{Prop: "C20", Oracle: "process-death", Sig: "process-death:" + drv.PanicSig(d),
					Detail: fmt.Sprintf("instance %s Compression=%s: a read of a stored value damaged where no checksum covers it (%s) killed the server\n%s", typ, comp, desc, d)}, nil
			}
			return nil, err
		}
		fired[c.kind]++
		for i, rp := range resps {
			rd := reads[i]
			if rd.Other {
				if rp.Status != rd.St || !bytes.Equal(rp.Body, rd.Want) {
					return viol("isolation", "a read of another value is affected by the corrupted one", fmt.Sprintf("%s; %s %s -> %d %s (fault-free: %d %s)", desc, rd.Req.Method, rd.Req.URL, rp.Status, trunc(rp.Body), rd.St, trunc(rd.Want))), nil
				}
				continue
			}
			if isPanic500(rp) && typ != "keyvalue" && !(hasCRC && inPayload) {
				// the envelope cannot detect this alteration; what the data type's own parser does with the
				// garbage it is handed is outside this property (a recovered panic; the process is alive)
				w.Stats.Probe("type-parser-panics-on-undetectable-garbage")
				continue
			}
			if isPanic500(rp) {
				return viol("no-crash", "a corrupted stored value makes a read panic: "+drv.PanicSig(string(rp.Body)), fmt.Sprintf("%s; %s %s -> %d %s", desc, rd.Req.Method, rd.Req.URL, rp.Status, trunc(rp.Body))), nil
			}
			if rp.Status == 200 && bytes.Equal(rp.Body, rd.Want) {
				w.Stats.Probe("corruption-not-visible-to-read") // e.g. a flipped bit in unused padding, or a read that does not decode the value
				continue
			}
			if rp.Status == 200 && json.Valid(rd.Want) && !json.Valid(rp.Body) {
				// a streamed JSON answer that breaks off with the error text: the status line was already sent,
				// the client cannot take the answer for data
				w.Stats.Probe("streamed-answer-broken-off-with-error")
				continue
			}
			if hasCRC && inPayload && rp.Status == 200 {
				view := strings.TrimPrefix(rd.Req.URL, base+"/")
				if j := strings.IndexAny(view, "/?"); j > 0 {
					view = view[:j]
				}
				same := "other data"
				if len(rp.Body) < len(rd.Want) {
					same = "data missing"
				}
				return viol("checksum", fmt.Sprintf("payload alteration not reported with CRC32 enabled (%s %s answers 200 with %s)", typ, view, same),
					fmt.Sprintf("%s; %s %s -> 200 with %s: %s ... %s (fault-free: %s)", desc, rd.Req.Method, rd.Req.URL, same, trunc(rp.Body), tailOf(rp.Body, 160), trunc(rd.Want))), nil
			}
		}
	}
	if err := w.SetFaults(&proto.FaultPlan{}); err != nil {
		return nil, err
	}
	// after the faults: the value still reads fine (nothing was written back)
	resps, err = fetch()
	if err != nil {
		return nil, err
	}
	for i, rp := range resps {
		if rp.Status != reads[i].St || !bytes.Equal(rp.Body, reads[i].Want) {
			return viol("round-trip", "value reads differently after read faults stopped", fmt.Sprintf("%s %s: %d %s", reads[i].Req.Method, reads[i].Req.URL, rp.Status, trunc(rp.Body))), nil
		}
	}
	for k, n := range fired {
		w.Stats.Probes["corruption-"+k] += n
	}
	w.Discard()
	return nil, nil
}

func (C15) NonTrivial(sc *drv.Scenario, st *drv.RunStats) bool {
	if strings.HasPrefix(sc.Family, "metadata") {
		return st.Probes["boot-with-corrupt-metadata-succeeded"]+st.Probes["boot-with-corrupt-metadata-reported-error"] >= 6
	}
	kinds := 0
	total := 0
	for _, k := range []string{"corruption-bit", "corruption-byte", "corruption-trunc"} {
		if st.Probes[k] > 0 {
			kinds++
		}
		total += st.Probes[k]
	}
	return kinds >= 2 && total >= 50
}

func tailOf(b []byte, n int) string {
	if len(b) > n {
		b = b[len(b)-n:]
	}
	return fmt.Sprintf("%q", b)
}
