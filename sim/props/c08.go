package props

import (
	"fmt"
	"math/rand/v2"
	"time"

	"verif/sim/drv"
)

// C08 — label indices, voxels and mappings stay consistent under proofreading.
type C08 struct{ drv.CheckBase }

func init() { drv.Register(&C08{}) }

func (C08) ID() string    { return "C08" }
func (C08) Level() string { return "exploration" }
func (C08) Rule() string {
	return "each run = one seeded history on a small label volume (block size 16 or 32, 1-12 blocks, possibly negative block coordinates): block-aligned ingests of generated supervoxel layouts " +
		"(Voronoi cells, background, supervoxels spanning blocks or confined to a sub-block, large label values), mutating overwrites, merges, cleaves, supervoxel splits (single voxel, half, a whole block's part, scattered), " +
		"renumberings, next-label and POST maxlabel requests, interleaved with commit / new version / branch and clean or kill restarts; every operation is settled (barrier) before the next. " +
		"After operations and at the end, on sampled and finally ALL versions, every read endpoint (raw and blocks mapped and supervoxels=true, size, sizes, supervoxels, supervoxel-sizes, index, sparsevol rles/srles, " +
		"sparsevol-coarse, sparsevol-size, label, labels, mapping, mappings, listlabels, existing-labels, maxlabel) is compared with a dense-array + supervoxel->body-map reference model " +
		"(conservation follows from voxel-exact equality); GET history/<label> streams the versions' mutation log between mutations; across every restart the maxlabel answer of every version must not change (reported as C03). non-trivial = at least two kinds of proofreading operations and two versions; distinct = distinct (steps, schedule, faults) hash"
}
func (C08) Assumptions() []string {
	return append([]string{"version DAGs of label histories are trees (no merges of versions)", "the body 'split' endpoint (disabled by default) is not exercised; POST blocks/ingest-supervoxels/indices/mappings ingestion is not yet exercised"}, commonAssumptions...)
}
func (C08) Budget(tier string) (int, time.Duration) {
	return budget(tier, 150, 12000, 100*time.Second, 30*time.Minute)
}

// GenLabelHistory builds a labelmap history; shared with C12/C14/C03.
func GenLabelHistory(r *rand.Rand, nsteps int, maxDown int, pRestart float64, extra func(r *rand.Rand, open []int) *drv.Op) []drv.Op {
	B := 16
	if r.IntN(5) == 0 {
		B = 32
	}
	var G [3]int
	for {
		G = [3]int{1 + r.IntN(3), 1 + r.IntN(2), 1 + r.IntN(2)}
		if G[0]*G[1]*G[2]*B*B*B <= 70000 {
			break
		}
	}
	origin := []int{0, 0, 0}
	if r.IntN(3) == 0 {
		origin = []int{-r.IntN(2), -r.IntN(2), -r.IntN(2)}
	}
	steps := []drv.Op{{Op: "lrepo", P: [][]int{{B}, {G[0], G[1], G[2]}, origin}, M: int64(maxDown)}}
	d := NewDAG()
	d.Add(0, VUUID(0), nil, "", 0)
	brc := 0
	seed := func() int64 { return int64(r.Uint64N(1 << 40)) }
	steps = append(steps, drv.Op{Op: "ingest", V: 0, N: seed()})
	for i := 0; i < nsteps; i++ {
		open, locked := d.Open(0), d.LockedNodes(0)
		x := r.Float64()
		if x < pRestart {
			steps = append(steps, drv.Op{Op: "restart", Mode: pick(r, []string{"clean", "kill"})})
			continue
		}
		if extra != nil && r.IntN(6) == 0 && len(open) > 0 {
			if op := extra(r, open); op != nil {
				steps = append(steps, *op)
				continue
			}
		}
		if len(open) == 0 || (r.IntN(9) == 0 && len(locked) > 0 && len(d.Nodes) < 6) {
			// structural
			if len(locked) == 0 {
				v := pick(r, open)
				d.Nodes[v].Locked = true
				steps = append(steps, drv.Op{Op: "commit", V: v})
				continue
			}
			var c []int
			for _, p := range locked {
				if d.CanNewVersion(p) {
					c = append(c, p)
				}
			}
			idx := d.NextIdx()
			if len(c) > 0 && r.IntN(2) == 0 {
				p := pick(r, c)
				d.Add(idx, VUUID(idx), []int{p}, d.Nodes[p].Branch, 0)
				steps = append(steps, drv.Op{Op: "newver", V: p, N: int64(idx)})
			} else {
				p := pick(r, locked)
				brc++
				name := fmt.Sprintf("lb%d", brc)
				d.Add(idx, VUUID(idx), []int{p}, name, 0)
				steps = append(steps, drv.Op{Op: "branch", V: p, Br: name, N: int64(idx)})
			}
			continue
		}
		v := pick(r, open)
		switch y := r.IntN(100); {
		case y < 16:
			steps = append(steps, drv.Op{Op: "ingest", V: v, N: seed()})
		case y < 28:
			steps = append(steps, drv.Op{Op: "mutate", V: v, N: seed()})
		case y < 46:
			steps = append(steps, drv.Op{Op: "lmerge", V: v, N: seed()})
		case y < 62:
			steps = append(steps, drv.Op{Op: "cleave", V: v, N: seed()})
		case y < 78:
			steps = append(steps, drv.Op{Op: "splitsv", V: v, N: seed()})
		case y < 83:
			steps = append(steps, drv.Op{Op: "renumber", V: v, N: seed()})
		case y < 86:
			steps = append(steps, drv.Op{Op: "nextlabel", V: v, N: seed()})
		case y < 88:
			steps = append(steps, drv.Op{Op: "setmax", V: v, N: seed()})
		case y < 94:
			d.Nodes[v].Locked = true
			steps = append(steps, drv.Op{Op: "commit", V: v})
		default:
			steps = append(steps, drv.Op{Op: "lcheck", V: v})
		}
	}
	steps = append(steps, drv.Op{Op: "lcheckall"})
	return steps
}

func (C08) Generate(r *rand.Rand, tier string, idx int) *drv.Scenario {
	steps := GenLabelHistory(r, 8+r.IntN(18), 0, 0.03, nil)
	k := baseKnobs(r)
	switch r.IntN(3) {
	case 0:
		k.Caches = map[string]int{"labelmap": 0}
	case 1:
		k.Caches = map[string]int{"labelmap": 1}
	}
	return &drv.Scenario{Family: "proofreading", Knobs: k, Steps: steps, Fixed: 2}
}

// runLabelSteps executes a labelmap scenario with per-step checks; shared by C08/C12/C14.
func runLabelSteps(sc *drv.Scenario, w *drv.World, x *LabelExec, after func(i int, op drv.Op) (*drv.Violation, error)) (*drv.Violation, error) {
	for i, op := range sc.Steps {
		w.CurStep = i
		switch op.Op {
		case "lcheck":
			v, err := x.CheckVersion(op.V, false)
			if err != nil || v != nil {
				if v != nil {
					v.Step = i
				}
				return v, err
			}
			continue
		case "lcheckall":
			for _, vi := range x.D.Sorted() {
				v, err := x.CheckVersion(vi, true)
				if err != nil || v != nil {
					if v != nil {
						v.Step = i
					}
					return v, err
				}
			}
			if v := x.CheckMutIDs(); v != nil {
				v.Step = i
				return v, nil
			}
			continue
		}
		_, v, err := x.Apply(op)
		if err != nil {
			return nil, err
		}
		if v != nil {
			v.Step = i
			return v, nil
		}
		if x.EndRun {
			return nil, nil
		}
		if after != nil {
			if v, err := after(i, op); v != nil || err != nil {
				if v != nil {
					v.Step = i
				}
				return v, err
			}
		}
	}
	return nil, nil
}

func (C08) Execute(sc *drv.Scenario, w *drv.World) (*drv.Violation, error) {
	if _, err := w.Start(); err != nil {
		return nil, err
	}
	x := NewLabelExec(w, "C08")
	v, err := runLabelSteps(sc, w, x, func(i int, op drv.Op) (*drv.Violation, error) {
		// after every mutation: the touched version and (isolation) its parent
		switch op.Op {
		case "lmerge", "cleave", "splitsv", "renumber", "mutate", "ingest":
			if v, err := x.CheckVersion(op.V, false); v != nil || err != nil {
				return v, err
			}
			if x.D.Has(op.V) && len(x.D.Nodes[op.V].Parents) > 0 && i%3 == 0 {
				return x.CheckVersion(x.D.Nodes[op.V].Parents[0], false)
			}
		}
		return nil, nil
	})
	if err != nil || v != nil {
		return v, err
	}
	w.Discard()
	return nil, nil
}

func (C08) NonTrivial(sc *drv.Scenario, st *drv.RunStats) bool {
	kinds := 0
	for _, k := range []string{"label-merge", "label-cleave", "label-splitsv", "label-renumber", "label-mutate"} {
		if st.Probes[k] > 0 {
			kinds++
		}
	}
	return kinds >= 2
}
