package props

// Shared machinery for histories over a versioned key-value instance on a
// branched DAG: the generator (used by C01, C05, C03, C06, C19 ...) and the
// executor that applies the operations to DVID and to the reference model.

import (
	"encoding/json"
	"fmt"
	"math/rand/v2"
	"sort"
	"strings"

	"verif/sim/drv"
	"verif/sim/proto"
)

// ---------- executor ----------

type KVExec struct {
	W        *drv.World
	D        *DAG
	Insts    map[string]*KVModel // instance name -> model
	InstRepo map[string]int
	InstType map[string]string
	RepoRoot map[int]int         // repo index -> root version index
	MutLog   map[string][]string // "inst|version" -> acknowledged mutations in order ("postkv k" / "delete k")
	Skipped  int                 // ops skipped because they referenced something absent (after shrinking)
	Rejected int                 // set-up ops DVID refused although the generator's model allowed them
}

func NewKVExec(w *drv.World) *KVExec {
	return &KVExec{W: w, D: NewDAG(), Insts: map[string]*KVModel{}, InstRepo: map[string]int{},
		InstType: map[string]string{}, RepoRoot: map[int]int{}, MutLog: map[string][]string{}}
}

func (x *KVExec) uuid(v int) string { return x.D.Nodes[v].UUID }

func jsonBody(m map[string]interface{}) []byte {
	b, _ := json.Marshal(m)
	return b
}

func childUUID(body []byte) string {
	var r struct {
		Child string `json:"child"`
	}
	json.Unmarshal(body, &r)
	return r.Child
}

// ApplyDAGOp handles repo/version-graph/instance/put/delete/restart ops that
// all KV-history properties share.  handled=false means the op kind is not one
// of these.
func (x *KVExec) ApplyDAGOp(op drv.Op) (handled bool, v *drv.Violation, err error) {
	w := x.W
	switch op.Op {
	case "repo":
		idx := int(op.N)
		u := VUUID(idx)
		st, body, e := w.HTTP("POST", "/api/repos", jsonBody(map[string]interface{}{"alias": fmt.Sprintf("repo%d", op.R), "description": "sim", "root": u}))
		if e != nil {
			return true, nil, e
		}
		if st != 200 {
			x.Rejected++
			return true, nil, fmt.Errorf("%w: cannot create repo: %d %s", drv.ErrInfra, st, body)
		}
		x.D.Add(idx, u, nil, "", op.R)
		x.RepoRoot[op.R] = idx
		return true, nil, nil
	case "inst":
		root, ok := x.RepoRoot[op.R]
		if !ok {
			x.Skipped++
			return true, nil, nil
		}
		cfg := map[string]interface{}{"typename": op.T, "dataname": op.I}
		if op.N == 1 {
			cfg["versioned"] = "false"
		}
		for _, kv := range op.S {
			if i := strings.IndexByte(kv, '='); i > 0 {
				cfg[kv[:i]] = kv[i+1:]
			}
		}
		// instances are created at the version given (must be open) or the root
		at := root
		if op.V != 0 && x.D.Has(op.V) {
			at = op.V
		}
		st, body, e := w.HTTP("POST", "/api/repo/"+x.uuid(at)+"/instance", jsonBody(cfg))
		if e != nil {
			return true, nil, e
		}
		if st != 200 {
			x.Rejected++
			w.Stats.Probe("setup-rejected")
			_ = body
			return true, nil, nil
		}
		x.Insts[op.I] = NewKVModel(op.N != 1)
		x.InstRepo[op.I] = op.R
		x.InstType[op.I] = op.T
		return true, nil, nil
	case "put", "del":
		m := x.Insts[op.I]
		if m == nil || !x.D.Has(op.V) {
			x.Skipped++
			return true, nil, nil
		}
		url := "/api/node/" + x.uuid(op.V) + "/" + op.I + "/key/" + op.K
		var st int
		var body []byte
		var e error
		if op.Op == "put" {
			st, body, e = w.HTTP("POST", url, []byte(op.Val))
		} else {
			st, body, e = w.HTTP("DELETE", url, nil)
		}
		if e != nil {
			return true, nil, e
		}
		n := x.D.Nodes[op.V]
		if n.Locked && m.Versioned {
			// the generator never does this on purpose; after shrinking it can happen
			if st == 200 {
				return true, &drv.Violation{Prop: "C02", Oracle: "gate", Sig: "write accepted on committed version", Detail: fmt.Sprintf("%s %s -> 200", op.Op, url)}, nil
			}
			return true, nil, nil
		}
		if st != 200 {
			x.Rejected++
			w.Stats.Probe("write-rejected")
			_ = body
			return true, nil, nil
		}
		ver := op.V
		if !m.Versioned {
			ver = x.RepoRoot[n.Repo]
		}
		lk := fmt.Sprintf("%s|%d", op.I, op.V)
		if op.Op == "put" {
			m.Put(ver, op.K, op.Val)
			x.MutLog[lk] = append(x.MutLog[lk], "postkv "+op.K)
		} else {
			m.Delete(ver, op.K)
			x.MutLog[lk] = append(x.MutLog[lk], "delete "+op.K)
		}
		return true, nil, nil
	case "commit":
		if !x.D.Has(op.V) {
			x.Skipped++
			return true, nil, nil
		}
		n := x.D.Nodes[op.V]
		cbody := jsonBody(map[string]interface{}{"note": "commit " + n.UUID[:4]})
		if op.Mode == "bare" {
			cbody = []byte("{}") // a commit without note and log
			w.Stats.Probe("commit-without-note")
		}
		st, _, e := w.HTTP("POST", "/api/node/"+n.UUID+"/commit", cbody)
		if e != nil {
			return true, nil, e
		}
		if st == 200 {
			n.Locked = true
		} else if !n.Locked {
			x.Rejected++
			w.Stats.Probe("setup-rejected")
		}
		return true, nil, nil
	case "newver", "branch":
		if !x.D.Has(op.V) || x.D.Has(int(op.N)) {
			x.Skipped++
			return true, nil, nil
		}
		p := x.D.Nodes[op.V]
		idx := int(op.N)
		u := VUUID(idx)
		body := map[string]interface{}{"uuid": u, "note": "n"}
		action := "newversion"
		branch := p.Branch
		if op.Op == "branch" {
			action = "branch"
			body["branch"] = op.Br
			branch = op.Br
		}
		st, rb, e := w.HTTP("POST", "/api/node/"+p.UUID+"/"+action, jsonBody(body))
		if e != nil {
			return true, nil, e
		}
		if st != 200 {
			x.Rejected++
			w.Stats.Probe("setup-rejected")
			return true, nil, nil
		}
		if cu := childUUID(rb); cu != u {
			return true, &drv.Violation{Prop: "C07", Oracle: "assigned-uuid", Sig: "child uuid differs from assigned", Detail: fmt.Sprintf("asked %s got %s", u, cu)}, nil
		}
		x.D.Add(idx, u, []int{op.V}, branch, p.Repo)
		return true, nil, nil
	case "merge":
		var ps []string
		for _, p := range op.Ps {
			if !x.D.Has(p) {
				x.Skipped++
				return true, nil, nil
			}
			ps = append(ps, x.uuid(p))
		}
		if len(ps) < 2 || x.D.Has(int(op.N)) {
			x.Skipped++
			return true, nil, nil
		}
		repo := x.D.Nodes[op.Ps[0]].Repo
		st, rb, e := w.HTTP("POST", "/api/repo/"+ps[0]+"/merge", jsonBody(map[string]interface{}{"mergeType": "conflict-free", "parents": ps, "note": "m"}))
		if e != nil {
			return true, nil, e
		}
		if st != 200 {
			x.Rejected++
			w.Stats.Probe("setup-rejected")
			return true, nil, nil
		}
		x.D.Add(int(op.N), childUUID(rb), op.Ps, "", repo)
		if len(op.Ps) >= 3 {
			w.Stats.Probe("merge>=3parents")
		}
		for i, a := range op.Ps {
			for j, b := range op.Ps {
				if i != j && x.D.ProperAncestor(a, b) {
					w.Stats.Probe("merge-parents-ancestor-related")
				}
			}
		}
		return true, nil, nil
	case "restart":
		kind := op.Mode
		if kind == "" {
			kind = "clean"
		}
		if _, e := w.Restart(kind); e != nil {
			return true, nil, e
		}
		return true, nil, nil
	case "sleep":
		return true, nil, w.Sleep(op.N)
	}
	return false, nil, nil
}

// CheckPointReads compares GET/HEAD key on every (instance, key, version)
// with the reference resolver.
func (x *KVExec) CheckPointReads(prop string) (*drv.Violation, error) {
	type q struct {
		inst, key string
		v         int
		want      ReadResult
	}
	var qs []q
	var reqs []proto.Req
	for inst, m := range x.Insts {
		if x.InstType[inst] != "keyvalue" {
			continue
		}
		keys := append(m.Keys(), "neverwritten")
		for _, vi := range x.D.Sorted() {
			n := x.D.Nodes[vi]
			if n.Repo != x.InstRepo[inst] {
				continue
			}
			for _, k := range keys {
				rv := vi
				if !m.Versioned {
					rv = x.RepoRoot[n.Repo]
				}
				qs = append(qs, q{inst, k, vi, m.Resolve(x.D, rv, k)})
				reqs = append(reqs, drv.GET("/api/node/"+n.UUID+"/"+inst+"/key/"+k))
				reqs = append(reqs, drv.HEAD("/api/node/"+n.UUID+"/"+inst+"/key/"+k))
			}
		}
	}
	resps, err := x.W.Seq(reqs)
	if err != nil {
		return nil, err
	}
	for i, qq := range qs {
		g, h := resps[2*i], resps[2*i+1]
		desc := fmt.Sprintf("inst=%s key=%s version=%d(%s) model: %s", qq.inst, qq.key, qq.v, x.uuid(qq.v)[:4], qq.want.Reason)
		switch qq.want.Kind {
		case ReadAbsent:
			x.W.Stats.Probe("read-absent")
			if g.Status != 404 {
				return &drv.Violation{Prop: prop, Oracle: "point-read", Sig: fmt.Sprintf("want absent got %d", g.Status),
					Detail: fmt.Sprintf("%s: expected 404, got %d %q", desc, g.Status, trunc(g.Body))}, nil
			}
			if h.Status != 404 {
				return &drv.Violation{Prop: prop, Oracle: "head-read", Sig: fmt.Sprintf("HEAD want absent got %d", h.Status), Detail: desc}, nil
			}
		case ReadValue:
			x.W.Stats.Probe("read-value")
			if g.Status != 200 {
				return &drv.Violation{Prop: prop, Oracle: "point-read", Sig: fmt.Sprintf("want value got %d", g.Status),
					Detail: fmt.Sprintf("%s: expected 200 %q, got %d %q", desc, qq.want.Val, g.Status, trunc(g.Body))}, nil
			}
			if string(g.Body) != qq.want.Val {
				return &drv.Violation{Prop: prop, Oracle: "point-read", Sig: "wrong value",
					Detail: fmt.Sprintf("%s: expected %q, got %q", desc, qq.want.Val, trunc(g.Body))}, nil
			}
			if h.Status != 200 {
				return &drv.Violation{Prop: prop, Oracle: "head-read", Sig: fmt.Sprintf("HEAD want present got %d", h.Status), Detail: desc}, nil
			}
		case ReadConflict:
			x.W.Stats.Probe("read-conflict")
			if g.Status == 200 {
				return &drv.Violation{Prop: prop, Oracle: "point-read", Sig: "conflict read succeeded",
					Detail: fmt.Sprintf("%s: two unsuperseded live values %v, but GET succeeded with %q", desc, qq.want.Cands, trunc(g.Body))}, nil
			}
		}
	}
	return nil, nil
}

func trunc(b []byte) string {
	if len(b) > 200 {
		return string(b[:200]) + "..."
	}
	return string(b)
}

// ---------- generator ----------

type KVGenOpts struct {
	MaxVersions int
	Keys        []string
	Steps       int
	PRestart    float64
	PCheck      float64
	MergeBias   float64 // extra weight for merges
	Unversioned bool    // add an unversioned distractor instance
	SecondRepo  bool
	Inst        string
	FinalCheck  bool
	ExtraOp     func(g *KVGen) *drv.Op // property-specific op generator, tried with probability PExtra
	PExtra      float64
	Prelude     func(g *KVGen) // structured steps emitted after the set-up, before the random history
}

type KVGen struct {
	R      *rand.Rand
	D      *DAG
	O      KVGenOpts
	Steps  []drv.Op
	valCtr int
	brCtr  int
	Insts  []string // versioned kv instances per repo 0
	Fixed  int      // number of leading set-up steps
}

func (g *KVGen) NewVal() string {
	g.valCtr++
	return fmt.Sprintf("val%d", g.valCtr)
}

func pick[T any](r *rand.Rand, xs []T) T { return xs[r.IntN(len(xs))] }

// GenKVHistory produces set-up + a random history + (optionally) a final check.
func GenKVHistory(r *rand.Rand, o KVGenOpts) *KVGen {
	g := &KVGen{R: r, D: NewDAG(), O: o}
	if o.Inst == "" {
		g.O.Inst = "kv"
	}
	inst := g.O.Inst
	g.Steps = append(g.Steps, drv.Op{Op: "repo", R: 0, N: 0})
	g.D.Add(0, VUUID(0), nil, "", 0)
	g.Steps = append(g.Steps, drv.Op{Op: "inst", R: 0, I: inst, T: "keyvalue"})
	g.Insts = []string{inst}
	if o.Unversioned {
		g.Steps = append(g.Steps, drv.Op{Op: "inst", R: 0, I: "ukv", T: "keyvalue", N: 1})
	}
	if o.SecondRepo {
		g.Steps = append(g.Steps, drv.Op{Op: "repo", R: 1, N: 1})
		g.D.Add(1, VUUID(1), nil, "", 1)
		g.Steps = append(g.Steps, drv.Op{Op: "inst", R: 1, I: "kvb", T: "keyvalue"})
	}
	g.Fixed = len(g.Steps)
	if o.Prelude != nil {
		o.Prelude(g)
	}
	for i := 0; i < o.Steps; i++ {
		g.step()
	}
	if o.FinalCheck {
		g.Steps = append(g.Steps, drv.Op{Op: "check"})
	}
	return g
}

func (g *KVGen) instFor(repo int) string {
	if repo == 1 {
		return "kvb"
	}
	if g.O.Unversioned && g.R.IntN(6) == 0 {
		return "ukv"
	}
	return g.O.Inst
}

func (g *KVGen) step() {
	r := g.R
	open := g.D.Open(-1)
	locked := g.D.LockedNodes(-1)
	nver := len(g.D.Nodes)
	if g.O.ExtraOp != nil && r.Float64() < g.O.PExtra {
		if op := g.O.ExtraOp(g); op != nil {
			g.Steps = append(g.Steps, *op)
			return
		}
	}
	x := r.Float64()
	switch {
	case x < g.O.PRestart:
		mode := "clean"
		if r.IntN(2) == 0 {
			mode = "kill"
		}
		g.Steps = append(g.Steps, drv.Op{Op: "restart", Mode: mode})
		return
	case x < g.O.PRestart+g.O.PCheck:
		g.Steps = append(g.Steps, drv.Op{Op: "check"})
		return
	}
	// structural ops become more likely when nothing is open
	wPut, wDel, wCommit, wNew, wBranch, wMerge := 38.0, 14.0, 14.0, 12.0, 9.0, 8.0+g.O.MergeBias
	if len(open) == 0 {
		wPut, wDel, wCommit = 0, 0, 0
	}
	if len(locked) == 0 || nver >= g.O.MaxVersions {
		wNew, wBranch, wMerge = 0, 0, 0
	}
	if len(locked) < 2 {
		wMerge = 0
	}
	if len(open) > 0 && len(locked) == 0 {
		wCommit += 10
	}
	tot := wPut + wDel + wCommit + wNew + wBranch + wMerge
	if tot == 0 {
		return
	}
	y := r.Float64() * tot
	switch {
	case y < wPut:
		v := pick(r, open)
		g.Steps = append(g.Steps, drv.Op{Op: "put", V: v, I: g.instFor(g.D.Nodes[v].Repo), K: pick(r, g.O.Keys), Val: g.NewVal()})
	case y < wPut+wDel:
		v := pick(r, open)
		g.Steps = append(g.Steps, drv.Op{Op: "del", V: v, I: g.instFor(g.D.Nodes[v].Repo), K: pick(r, g.O.Keys)})
	case y < wPut+wDel+wCommit:
		v := pick(r, open)
		g.D.Nodes[v].Locked = true
		cop := drv.Op{Op: "commit", V: v}
		if g.R.IntN(3) == 0 {
			cop.Mode = "bare"
		}
		g.Steps = append(g.Steps, cop)
	case y < wPut+wDel+wCommit+wNew:
		var cands []int
		for _, p := range locked {
			if g.D.CanNewVersion(p) {
				cands = append(cands, p)
			}
		}
		if len(cands) == 0 {
			g.genBranch(locked)
			return
		}
		p := pick(r, cands)
		idx := g.D.NextIdx()
		g.D.Add(idx, VUUID(idx), []int{p}, g.D.Nodes[p].Branch, g.D.Nodes[p].Repo)
		g.Steps = append(g.Steps, drv.Op{Op: "newver", V: p, N: int64(idx)})
	case y < wPut+wDel+wCommit+wNew+wBranch:
		g.genBranch(locked)
	default:
		// merge 2..4 committed versions of one repo
		repo := g.D.Nodes[pick(r, locked)].Repo
		var same []int
		for _, p := range locked {
			if g.D.Nodes[p].Repo == repo {
				same = append(same, p)
			}
		}
		if len(same) < 2 {
			return
		}
		k := 2
		if len(same) >= 3 && r.IntN(3) == 0 {
			k = 3
		}
		if len(same) >= 4 && r.IntN(8) == 0 {
			k = 4
		}
		r.Shuffle(len(same), func(i, j int) { same[i], same[j] = same[j], same[i] })
		ps := append([]int(nil), same[:k]...)
		idx := g.D.NextIdx()
		g.D.Add(idx, "", ps, "", repo)
		g.Steps = append(g.Steps, drv.Op{Op: "merge", Ps: ps, N: int64(idx)})
	}
}

func (g *KVGen) genBranch(locked []int) {
	p := pick(g.R, locked)
	g.brCtr++
	name := fmt.Sprintf("br%d", g.brCtr)
	idx := g.D.NextIdx()
	g.D.Add(idx, VUUID(idx), []int{p}, name, g.D.Nodes[p].Repo)
	g.Steps = append(g.Steps, drv.Op{Op: "branch", V: p, Br: name, N: int64(idx)})
}

// CheckMutationLogs: with the JSON mutation log enabled, GET .../mutations at a version
// must list exactly the acknowledged key-value mutations of that version, in order.
func (x *KVExec) CheckMutationLogs(prop string) (*drv.Violation, error) {
	var keys []string
	for k := range x.MutLog {
		keys = append(keys, k)
	}
	sort.Strings(keys)
	for _, lk := range keys {
		parts := strings.SplitN(lk, "|", 2)
		var v int
		fmt.Sscan(parts[1], &v)
		if !x.D.Has(v) || x.Insts[parts[0]] == nil || !x.Insts[parts[0]].Versioned {
			// (unversioned instances file their log under the request's uuid but read it under
			// the root's: not a restart/crash matter, left out of this oracle)
			continue
		}
		st, body, err := x.W.HTTP("GET", "/api/node/"+x.uuid(v)+"/"+parts[0]+"/mutations", nil)
		if err != nil {
			return nil, err
		}
		if st != 200 {
			return &drv.Violation{Prop: prop, Oracle: "mutation-log", Sig: "mutations endpoint fails", Detail: fmt.Sprintf("%s version %d: %d %s", parts[0], v, st, trunc(body))}, nil
		}
		var recs []struct{ Action, Key string }
		if err := json.Unmarshal(body, &recs); err != nil {
			return &drv.Violation{Prop: prop, Oracle: "mutation-log", Sig: "mutation log is not valid JSON", Detail: fmt.Sprintf("%s version %d: %s", parts[0], v, trunc(body))}, nil
		}
		var got []string
		for _, r := range recs {
			got = append(got, r.Action+" "+r.Key)
		}
		if strings.Join(got, ",") != strings.Join(x.MutLog[lk], ",") {
			return &drv.Violation{Prop: prop, Oracle: "mutation-log", Sig: "mutation log differs from the acknowledged mutations",
				Detail: fmt.Sprintf("%s version %d(%s)\n acknowledged: %v\n log yields:   %v", parts[0], v, x.uuid(v)[:4], x.MutLog[lk], got)}, nil
		}
		x.W.Stats.Probe("mutation-log-checked")
	}
	return nil, nil
}
