package props

import (
	"encoding/json"
	"fmt"
	"math/rand/v2"
	"sort"
	"strings"
	"time"

	"verif/sim/drv"
	"verif/sim/proto"
)

// C07 — the version DAG stays well formed and identifiers stay unique.
type C07 struct{ drv.CheckBase }

func init() { drv.Register(&C07{}) }

func (C07) ID() string    { return "C07" }
func (C07) Level() string { return "exploration" }
func (C07) Rule() string {
	return "each run = one seeded sequence of repo-level requests (new repo, commit, new version, branch, tag, merge, resolve, note/log, instance create/rename/delete, repo delete; via HTTP and the RPC command switch) " +
		"whose arguments are drawn from every kind in the property's quantifier (fresh / caller-assigned / duplicate / empty / malformed UUIDs and branch names; committed / open / unknown / repeated / foreign-repo parents), with clean/kill restarts; " +
		"after EVERY request GET /api/repos/info is parsed and the graph invariants are evaluated (single root, acyclic, parent/child mirror, unique uuids and version ids, children only under committed parents, one chain and one head per created branch, " +
		"branch-versions and uuid:branch addressing agree with the graph), and a request answered with an error must leave the normalised graph unchanged; after a restart the reloaded graph must equal the one before, and every <root>:<branch> (master included) must resolve as before (reported as C03). " +
		"Every fourth run is a store-error run: a quarter of its graph-changing requests meet one failing store write (injected disk error at the n-th Put of the request); a request that is then answered with an error must leave the graph unchanged like any other refused request. " +
		"non-trivial = at least one rejected request and one merge or branch; distinct = distinct (steps, schedule, faults) hash"
}
func (C07) Assumptions() []string { return commonAssumptions }
func (C07) Budget(tier string) (int, time.Duration) {
	return budget(tier, 600, 40000, 70*time.Second, 25*time.Minute)
}

func (C07) Generate(r *rand.Rand, tier string, idx int) *drv.Scenario {
	fam := []string{"mostly-valid", "hostile-args", "mixed"}[r.IntN(3)]
	pBad := map[string]float64{"mostly-valid": 0.08, "hostile-args": 0.45, "mixed": 0.2}[fam]
	d := NewDAG()
	var steps []drv.Op
	steps = append(steps, drv.Op{Op: "c7repo", T: "fresh", N: 0, R: 0})
	d.Add(0, VUUID(0), nil, "", 0)
	steps = append(steps, drv.Op{Op: "inst", R: 0, I: "kv", T: "keyvalue"})
	nrepo := 1
	brCtr := 0
	uuidKind := func() string {
		if r.Float64() < pBad {
			return pick(r, []string{"dup", "malformed", "nonhex", "empty", "dupother"})
		}
		if r.IntN(5) == 0 {
			return "none"
		}
		return "fresh"
	}
	pickV := func(kind string) int {
		// kind: locked | open | any | unknown
		var c []int
		switch kind {
		case "locked":
			c = d.LockedNodes(-1)
		case "open":
			c = d.Open(-1)
		default:
			c = d.Sorted()
		}
		if len(c) == 0 {
			return -1
		}
		return pick(r, c)
	}
	n := 14 + r.IntN(30)
	for i := 0; i < n; i++ {
		bad := r.Float64() < pBad
		x := r.IntN(100)
		switch {
		case x < 18: // commit
			k := "open"
			if bad {
				k = pick(r, []string{"locked", "unknown"})
			}
			v := pickV(k)
			if k == "unknown" {
				v = -1
			}
			if v >= 0 && !d.Nodes[v].Locked {
				d.Nodes[v].Locked = true
			}
			steps = append(steps, drv.Op{Op: "c7commit", V: v})
		case x < 36: // newversion
			k := "locked"
			if bad {
				k = pick(r, []string{"open", "unknown", "locked"})
			}
			p := pickV(k)
			if k == "unknown" {
				p = -1
			}
			uk := uuidKind()
			idx := d.NextIdx()
			if p >= 0 && d.Nodes[p].Locked && d.CanNewVersion(p) && (uk == "fresh" || uk == "none" || uk == "empty") {
				d.Add(idx, VUUID(idx), []int{p}, d.Nodes[p].Branch, d.Nodes[p].Repo)
			}
			steps = append(steps, drv.Op{Op: "c7newver", V: p, T: uk, N: int64(idx), M: int64(r.IntN(1000))})
		case x < 50: // branch
			k := "locked"
			if bad {
				k = pick(r, []string{"open", "unknown", "locked"})
			}
			p := pickV(k)
			if k == "unknown" {
				p = -1
			}
			brCtr++
			name := fmt.Sprintf("br%d", brCtr)
			if bad {
				switch r.IntN(5) {
				case 0:
					name = ""
				case 1:
					name = "master"
				case 2:
					if brCtr > 1 {
						name = fmt.Sprintf("br%d", 1+r.IntN(brCtr-1)) // duplicate
					}
				case 3:
					name = "we ird/na:me"
				}
			}
			if !bad && brCtr > 1 && r.IntN(8) == 0 {
				name = fmt.Sprintf("br%d", 1+r.IntN(brCtr-1)) // re-request an existing branch name (must be refused)
			}
			uk := uuidKind()
			idx := d.NextIdx()
			if p >= 0 && d.Nodes[p].Locked && name != "" && name != "master" && !d.BranchUsed(d.Nodes[p].Repo, name) && (uk == "fresh" || uk == "none" || uk == "empty") {
				d.Add(idx, VUUID(idx), []int{p}, name, d.Nodes[p].Repo)
			}
			steps = append(steps, drv.Op{Op: "c7branch", V: p, Br: name, T: uk, N: int64(idx), M: int64(r.IntN(1000))})
		case x < 56: // tag
			p := pickV("locked")
			if bad {
				p = pickV("any")
			}
			tk := "fresh32"
			if r.Float64() < pBad+0.2 {
				tk = pick(r, []string{"string", "dupuuid", "empty"})
			}
			idx := d.NextIdx()
			if p >= 0 && d.Nodes[p].Locked && tk == "fresh32" {
				nn := d.Add(idx, VUUID(idx), []int{p}, "tag-"+VUUID(idx), d.Nodes[p].Repo)
				nn.Locked = true
			}
			steps = append(steps, drv.Op{Op: "c7tag", V: p, T: tk, N: int64(idx), M: int64(r.IntN(1000))})
		case x < 72: // merge / resolve
			locked := d.LockedNodes(-1)
			var ps []int
			k := 2 + r.IntN(2)
			for j := 0; j < k; j++ {
				switch {
				case bad && r.IntN(3) == 0:
					ps = append(ps, -1) // unknown
				case bad && r.IntN(3) == 0 && len(d.Open(-1)) > 0:
					ps = append(ps, pick(r, d.Open(-1)))
				case bad && r.IntN(3) == 0 && len(ps) > 0:
					ps = append(ps, ps[0]) // repeated
				case len(locked) > 0:
					ps = append(ps, pick(r, locked))
				default:
					ps = append(ps, pickV("any"))
				}
			}
			if bad && r.IntN(4) == 0 {
				ps = ps[:1]
			}
			idx := d.NextIdx()
			ok := len(ps) >= 2
			seen := map[int]bool{}
			for _, p := range ps {
				if p < 0 || !d.Has(p) || !d.Has(ps[0]) || !d.Nodes[p].Locked || seen[p] || d.Nodes[p].Repo != d.Nodes[ps[0]].Repo {
					ok = false
				}
				seen[p] = true
			}
			if ok {
				d.Add(idx, "", ps, "", d.Nodes[ps[0]].Repo)
			}
			op := "c7merge"
			if r.IntN(6) == 0 {
				op = "c7resolve"
			}
			steps = append(steps, drv.Op{Op: op, Ps: ps, N: int64(idx)})
		case x < 78: // note / log
			v := pickV("any")
			steps = append(steps, drv.Op{Op: pick(r, []string{"c7note", "c7log"}), V: v, Val: fmt.Sprintf("n%d", i)})
		case x < 84: // new repo
			uk := uuidKind()
			idx := d.NextIdx()
			if uk == "fresh" || uk == "none" || uk == "empty" {
				d.Add(idx, VUUID(idx), nil, "", nrepo)
			}
			steps = append(steps, drv.Op{Op: "c7repo", T: uk, N: int64(idx), R: nrepo, M: int64(r.IntN(1000))})
			nrepo++
		case x < 90: // instance ops
			v := pickV("any")
			steps = append(steps, drv.Op{Op: pick(r, []string{"c7inst", "c7rename", "c7delinst"}), V: v, I: pick(r, []string{"kv", "kv2", "log", "x y"}), K2: pick(r, []string{"kv", "kv3", "kv2"})})
		case x < 95:
			steps = append(steps, drv.Op{Op: "restart", Mode: pick(r, []string{"clean", "kill"})})
		case x < 96 && nrepo > 1:
			steps = append(steps, drv.Op{Op: "c7delrepo", R: 1 + r.IntN(nrepo-1)})
		default: // a write that puts a marker on an open node (used to observe uuid:branch addressing)
			v := pickV("open")
			steps = append(steps, drv.Op{Op: "c7mark", V: v})
		}
	}
	sc := &drv.Scenario{Family: fam, Knobs: baseKnobs(r), Steps: steps, Fixed: 2}
	if idx%4 == 1 {
		// store-error swarm: some repo-level requests meet one failing metadata/data write (disk error, full disk).
		// A request answered with an error must still leave the graph as it was.  Own PRNG: the draws above are unchanged.
		fr := drv.NewRNG(uint64(idx)*7919 + 13)
		for i := range steps {
			switch steps[i].Op {
			case "c7newver", "c7branch", "c7merge", "c7commit", "c7tag", "c7inst", "c7note", "c7log", "c7repo":
				if fr.IntN(4) == 0 {
					steps[i].F = &proto.FaultPlan{ErrAtOp: 1 + fr.IntN(4), ErrMatch: "Put"}
				}
			}
		}
		sc.Family = fam + "+store-errors"
	}
	return sc
}

// ---- graph extraction and invariants ----

type c7Node struct {
	Branch    string
	UUID      string
	VersionID int
	Locked    bool
	Parents   []int
	Children  []int
}
type c7Repo struct {
	Root string
	DAG  struct {
		Root  string
		Nodes map[string]*c7Node
	}
	DataInstances map[string]json.RawMessage
}

func parseRepos(body []byte) (map[string]*c7Repo, error) {
	out := map[string]*c7Repo{}
	if err := json.Unmarshal(body, &out); err != nil {
		return nil, err
	}
	return out, nil
}

// normGraph renders what "the graph, the branch heads and the identifier maps" means observably.
func normGraph(repos map[string]*c7Repo) string {
	var lines []string
	for ru, r := range repos {
		if r == nil {
			lines = append(lines, "repo "+ru+" <nil>")
			continue
		}
		var inst []string
		for n := range r.DataInstances {
			inst = append(inst, n)
		}
		sort.Strings(inst)
		lines = append(lines, fmt.Sprintf("repo %s root=%s dagroot=%s inst=%v", ru, r.Root, r.DAG.Root, inst))
		for u, n := range r.DAG.Nodes {
			p := append([]int(nil), n.Parents...)
			c := append([]int(nil), n.Children...)
			sort.Ints(c)
			lines = append(lines, fmt.Sprintf("  node %s/%s v=%d locked=%v branch=%q parents=%v children=%v", ru, u, n.VersionID, n.Locked, n.Branch, p, c))
		}
	}
	sort.Strings(lines)
	return strings.Join(lines, "\n")
}

// graphInvariants returns (class, detail) of the first violated invariant.
func graphInvariants(repos map[string]*c7Repo) (string, string) {
	seenV := map[int]string{}
	seenU := map[string]string{}
	for ru, r := range repos {
		if r == nil {
			continue
		}
		byV := map[int]*c7Node{}
		for key, n := range r.DAG.Nodes {
			if key != n.UUID {
				return "node key differs from node uuid", fmt.Sprintf("repo %s: key %s uuid %s", ru, key, n.UUID)
			}
			if prev, dup := seenV[n.VersionID]; dup {
				return "version id names two nodes", fmt.Sprintf("version id %d used by %s and %s", n.VersionID, prev, n.UUID)
			}
			seenV[n.VersionID] = n.UUID
			if prev, dup := seenU[n.UUID]; dup {
				return "uuid names two nodes", fmt.Sprintf("uuid %s in repos %s and %s", n.UUID, prev, ru)
			}
			seenU[n.UUID] = ru
			byV[n.VersionID] = n
		}
		// single root
		var roots []string
		for _, n := range r.DAG.Nodes {
			if len(n.Parents) == 0 {
				roots = append(roots, n.UUID)
			}
		}
		sort.Strings(roots)
		if len(roots) != 1 {
			return "not single-rooted", fmt.Sprintf("repo %s has parentless nodes %v", ru, roots)
		}
		if roots[0] != r.DAG.Root || r.Root != r.DAG.Root {
			return "root mismatch", fmt.Sprintf("repo %s: Root=%s DAG.Root=%s parentless=%s", ru, r.Root, r.DAG.Root, roots[0])
		}
		// mirror + dangling + children only under committed parents + duplicates
		for _, n := range r.DAG.Nodes {
			ps := map[int]bool{}
			for _, p := range n.Parents {
				ps[p] = true
				pn := byV[p]
				if pn == nil {
					return "dangling parent", fmt.Sprintf("node %s parent %d not in repo", n.UUID, p)
				}
				if !containsInt(pn.Children, n.VersionID) {
					return "parent/child links do not mirror", fmt.Sprintf("node %s has parent %d whose children %v lack it", n.UUID, p, pn.Children)
				}
				if !pn.Locked {
					return "child under uncommitted parent", fmt.Sprintf("node %s hangs off open parent %s", n.UUID, pn.UUID)
				}
			}
			cs := map[int]bool{}
			for _, c := range n.Children {
				cs[c] = true
				cn := byV[c]
				if cn == nil {
					return "dangling child", fmt.Sprintf("node %s child %d not in repo", n.UUID, c)
				}
				if !containsInt(cn.Parents, n.VersionID) {
					return "parent/child links do not mirror", fmt.Sprintf("node %s has child %d whose parents %v lack it", n.UUID, c, cn.Parents)
				}
			}
		}
		// acyclic
		state := map[int]int{}
		var cyc func(v int) bool
		cyc = func(v int) bool {
			if state[v] == 1 {
				return true
			}
			if state[v] == 2 {
				return false
			}
			state[v] = 1
			for _, p := range byV[v].Parents {
				if byV[p] != nil && cyc(p) {
					return true
				}
			}
			state[v] = 2
			return false
		}
		for v := range byV {
			if cyc(v) {
				return "cycle", fmt.Sprintf("repo %s has a cycle through version %d", ru, v)
			}
		}
		// branches: among nodes created by branch/new-version (single parent), each node has at most
		// one child continuing its branch, and a named branch starts exactly once
		starts := map[string][]string{}
		for _, n := range r.DAG.Nodes {
			cont := 0
			for _, c := range n.Children {
				cn := byV[c]
				if cn != nil && len(cn.Parents) == 1 && cn.Branch == n.Branch {
					cont++
				}
			}
			if cont > 1 {
				return "branch forks", fmt.Sprintf("node %s (branch %q) has %d children continuing the same branch", n.UUID, n.Branch, cont)
			}
			if n.Branch != "" && len(n.Parents) == 1 {
				if pn := byV[n.Parents[0]]; pn != nil && pn.Branch != n.Branch {
					starts[n.Branch] = append(starts[n.Branch], n.UUID)
				}
			}
		}
		for b, s := range starts {
			if len(s) > 1 {
				sort.Strings(s)
				return "branch name starts twice", fmt.Sprintf("branch %q starts at %v", b, s)
			}
		}
	}
	return "", ""
}

func containsInt(xs []int, x int) bool {
	for _, y := range xs {
		if y == x {
			return true
		}
	}
	return false
}

// ---- executor ----

type c7Exec struct {
	w                       *drv.World
	uuids                   map[int]string // scenario index -> uuid of the node DVID created for it
	roots                   map[int]string // repo index -> root uuid
	before                  map[string]*c7Repo
	normB                   string
	nRejected, nMergeBranch int
	marked                  map[string]bool // versions that recorded their own uuid under kv key "whoami"
}

func (x *c7Exec) uuidOf(i int) string {
	if u, ok := x.uuids[i]; ok {
		return u
	}
	return fmt.Sprintf("dead%028x", i+7) // an unknown version
}

func (x *c7Exec) argUUID(kind string, idx int, salt int64) (string, bool) {
	switch kind {
	case "fresh":
		return VUUID(idx), true
	case "none":
		return "", false
	case "empty":
		return "", true
	case "malformed":
		return "abc123", true
	case "nonhex":
		return "zzzzzzzzzzzzzzzzzzzzzzzzzzzzzzzz", true
	case "dup", "dupother":
		// an existing uuid, chosen deterministically
		var ks []int
		for k := range x.uuids {
			ks = append(ks, k)
		}
		sort.Ints(ks)
		if len(ks) == 0 {
			return VUUID(idx), true
		}
		return x.uuids[ks[int(salt)%len(ks)]], true
	}
	return "", false
}

func (x *c7Exec) snapshot() (map[string]*c7Repo, string, error) {
	st, body, err := x.w.HTTP("GET", "/api/repos/info", nil)
	if err != nil {
		return nil, "", err
	}
	if st != 200 {
		return nil, "", fmt.Errorf("repos/info status %d: %s", st, trunc(body))
	}
	repos, err := parseRepos(body)
	if err != nil {
		return nil, "", fmt.Errorf("repos/info unparseable: %v", err)
	}
	return repos, normGraph(repos), nil
}

func (c C07) Execute(sc *drv.Scenario, w *drv.World) (*drv.Violation, error) {
	if _, err := w.Start(); err != nil {
		return nil, err
	}
	x := &c7Exec{w: w, uuids: map[int]string{}, roots: map[int]string{}, marked: map[string]bool{}}
	x.before = map[string]*c7Repo{}
	for i, op := range sc.Steps {
		w.CurStep = i
		v, err := x.step(op)
		if err != nil {
			return nil, err
		}
		if v != nil {
			v.Step = i
			return v, nil
		}
	}
	if x.nRejected > 0 {
		w.Stats.Probe("runs-with-rejected-request")
	}
	w.Discard()
	return nil, nil
}

func c7v(oracle, class, detail string) *drv.Violation {
	return &drv.Violation{Prop: "C07", Oracle: oracle, Sig: class, Detail: detail}
}

func (x *c7Exec) step(op drv.Op) (*drv.Violation, error) {
	w := x.w
	var method, url, desc string
	var body []byte
	var rpc []string
	freshUUID := "" // a uuid that must not resolve if the request fails
	onOK := func(resp []byte) {}
	switch op.Op {
	case "inst": // plain set-up instance
		root := x.roots[op.R]
		if root == "" {
			return nil, nil
		}
		method, url, body = "POST", "/api/repo/"+root+"/instance", jsonBody(map[string]interface{}{"typename": op.T, "dataname": op.I})
	case "c7repo":
		m := map[string]interface{}{"alias": fmt.Sprintf("repo%d", op.R), "description": "d"}
		u, send := x.argUUID(op.T, int(op.N), op.M)
		if send {
			m["root"] = u
		}
		if op.T == "fresh" {
			freshUUID = u
		}
		method, url, body = "POST", "/api/repos", jsonBody(m)
		onOK = func(resp []byte) {
			var r struct{ Root string }
			json.Unmarshal(resp, &r)
			x.uuids[int(op.N)] = r.Root
			x.roots[op.R] = r.Root
		}
	case "c7commit":
		method, url, body = "POST", "/api/node/"+x.uuidOf(op.V)+"/commit", jsonBody(map[string]interface{}{"note": "c"})
	case "c7newver", "c7branch":
		m := map[string]interface{}{"note": "n"}
		u, send := x.argUUID(op.T, int(op.N), op.M)
		if send {
			m["uuid"] = u
		}
		if op.T == "fresh" {
			freshUUID = u
		}
		action := "newversion"
		if op.Op == "c7branch" {
			action = "branch"
			m["branch"] = op.Br
		}
		method, url, body = "POST", "/api/node/"+x.uuidOf(op.V)+"/"+action, jsonBody(m)
		onOK = func(resp []byte) {
			cu := childUUID(resp)
			x.uuids[int(op.N)] = cu
			x.nMergeBranch++
			// every new single-parent version records its own uuid under one key, so that a read through
			// "<root>:<branch>" shows which node the branch name was resolved to
			if st, _, err := w.HTTP("POST", "/api/node/"+cu+"/kv/key/whoami", []byte(cu)); err == nil && st == 200 {
				x.marked[cu] = true
			}
		}
	case "c7tag":
		var tag string
		switch op.T {
		case "fresh32":
			tag = VUUID(int(op.N))
			freshUUID = tag
		case "string":
			tag = fmt.Sprintf("release-%d", op.M)
		case "dupuuid":
			tag, _ = x.argUUID("dup", int(op.N), op.M)
		case "empty":
			tag = ""
		}
		method, url, body = "POST", "/api/node/"+x.uuidOf(op.V)+"/tag", jsonBody(map[string]interface{}{"tag": tag, "note": "t"})
		onOK = func(resp []byte) { x.uuids[int(op.N)] = childUUID(resp) }
	case "c7merge", "c7resolve":
		var ps []string
		for _, p := range op.Ps {
			ps = append(ps, x.uuidOf(p))
		}
		at := x.roots[0]
		if len(op.Ps) > 0 {
			at = x.uuidOf(op.Ps[0])
		}
		m := map[string]interface{}{"mergeType": "conflict-free", "parents": ps, "note": "m"}
		ep := "merge"
		if op.Op == "c7resolve" {
			ep = "resolve"
			m["data"] = []string{"kv"}
		}
		method, url, body = "POST", "/api/repo/"+at+"/"+ep, jsonBody(m)
		onOK = func(resp []byte) { x.uuids[int(op.N)] = childUUID(resp); x.nMergeBranch++ }
	case "c7note":
		method, url, body = "POST", "/api/node/"+x.uuidOf(op.V)+"/note", jsonBody(map[string]interface{}{"note": op.Val})
	case "c7log":
		method, url, body = "POST", "/api/node/"+x.uuidOf(op.V)+"/log", jsonBody(map[string]interface{}{"log": []string{op.Val}})
	case "c7inst":
		method, url, body = "POST", "/api/repo/"+x.uuidOf(op.V)+"/instance", jsonBody(map[string]interface{}{"typename": "keyvalue", "dataname": op.I})
	case "c7rename":
		rpc = []string{"repo", x.uuidOf(op.V), "rename", op.I, op.K2}
	case "c7delinst":
		rpc = []string{"repo", x.uuidOf(op.V), "delete", op.I}
	case "c7delrepo":
		root := x.roots[op.R]
		if root == "" {
			return nil, nil
		}
		rpc = []string{"repos", "delete", root}
	case "c7mark":
		method, url, body = "POST", "/api/node/"+x.uuidOf(op.V)+"/kv/key/whoami", []byte(x.uuidOf(op.V))
	case "restart":
		_, nb, err := x.snapshot()
		if err != nil {
			return nil, err
		}
		hb, err := x.branchReads()
		if err != nil {
			return nil, err
		}
		if _, err := w.Restart(op.Mode); err != nil {
			return nil, err
		}
		repos, na, err := x.snapshot()
		if err != nil {
			return nil, err
		}
		if na != nb {
			return c7v("restart-graph", "graph differs after restart", "before:\n"+nb+"\nafter:\n"+na), nil
		}
		ha, err := x.branchReads()
		if err != nil {
			return nil, err
		}
		if ha != hb {
			return &drv.Violation{Prop: "C03", Oracle: "restart-branch-heads", Sig: "restart changed what <root>:<branch> resolves to", Detail: "before:\n" + hb + "\nafter:\n" + ha}, nil
		}
		w.Stats.Probe("restart-branch-heads-compared")
		x.before, x.normB = repos, na
		return nil, nil
	default:
		return nil, nil
	}
	if x.normB == "" {
		rb, nb, err := x.snapshot()
		if err != nil {
			return nil, err
		}
		x.before, x.normB = rb, nb
	}
	var st int
	var rb []byte
	var err error
	if op.F != nil {
		if err := w.SetFaults(op.F); err != nil {
			return nil, err
		}
	}
	if rpc != nil {
		var txt string
		st, txt, err = w.RPC(nil, rpc...)
		rb = []byte(txt)
		desc = "rpc " + strings.Join(rpc, " ")
	} else {
		st, rb, err = w.HTTP(method, url, body)
		desc = method + " " + url + " " + string(body)
	}
	if err != nil {
		return nil, err
	}
	faultTag := ""
	if op.F != nil {
		if err := w.SetFaults(&proto.FaultPlan{}); err != nil {
			return nil, err
		}
		desc += fmt.Sprintf(" [the %d. store write of this request fails]", op.F.ErrAtOp)
		faultTag = " under a failing store write"
	}
	ok := st >= 200 && st < 300
	if ok {
		onOK(rb)
	} else {
		x.nRejected++
		w.Stats.Probe("rejected:" + op.Op)
		if op.F != nil {
			w.Stats.Probe("rejected-under-store-error:" + op.Op)
		}
	}
	repos, na, err := x.snapshot()
	if err != nil {
		return nil, err
	}
	if class, det := graphInvariants(repos); class != "" {
		return c7v("graph-invariant", class+" after "+op.Op+argKinds(op)+okStr(ok),
			fmt.Sprintf("request: %s -> %d %s\n%s\ngraph:\n%s", desc, st, trunc(rb), det, na)), nil
	}
	if !ok && na != x.normB {
		return c7v("error-leaves-unchanged", "rejected "+op.Op+faultTag+argKinds(op)+" changed the graph",
			fmt.Sprintf("request: %s -> %d %s\nbefore:\n%s\nafter:\n%s", desc, st, trunc(rb), x.normB, na)), nil
	}
	existedBefore := false
	for _, r := range x.before {
		if r != nil && r.DAG.Nodes[freshUUID] != nil {
			existedBefore = true
		}
	}
	if !ok && freshUUID != "" && !existedBefore {
		st2, _, err := w.HTTP("GET", "/api/node/"+freshUUID+"/status", nil)
		if err != nil {
			return nil, err
		}
		if st2 == 200 {
			return c7v("error-leaves-unchanged", "rejected "+op.Op+argKinds(op)+" left its uuid registered",
				fmt.Sprintf("request: %s -> %d %s\nbut GET /api/node/%s/status -> 200", desc, st, trunc(rb), freshUUID)), nil
		}
	}
	// branch addressing agrees with the graph (named branches only; master is ambiguous once merges exist)
	if v, err := x.checkBranchAddressing(repos); v != nil || err != nil {
		return v, err
	}
	x.before, x.normB = repos, na
	return nil, nil
}

// branchReads reads through "<root>:<branch>" for every branch name in every repo (master included).
func (x *c7Exec) branchReads() (string, error) {
	repos, _, err := x.snapshot()
	if err != nil {
		return "", err
	}
	var rks []string
	for ru := range repos {
		rks = append(rks, ru)
	}
	sort.Strings(rks)
	var reqs []proto.Req
	for _, ru := range rks {
		r := repos[ru]
		if r == nil {
			continue
		}
		seen := map[string]bool{}
		var names []string
		for _, n := range r.DAG.Nodes {
			b := n.Branch
			if b == "" {
				b = "master"
			}
			if !seen[b] && !strings.ContainsAny(b, " /:?#%") {
				seen[b] = true
				names = append(names, b)
			}
		}
		sort.Strings(names)
		for _, b := range names {
			reqs = append(reqs, drv.GET("/api/node/"+r.Root+":"+b+"/status"), drv.GET("/api/node/"+r.Root+":"+b+"/kv/key/whoami"))
		}
	}
	if len(reqs) == 0 {
		return "", nil
	}
	if len(reqs) > 24 {
		reqs = reqs[:24]
	}
	resps, err := x.w.Seq(reqs)
	if err != nil {
		return "", err
	}
	var sb strings.Builder
	for i, rp := range resps {
		fmt.Fprintf(&sb, "GET %s -> %d %s\n", reqs[i].URL, rp.Status, trunc(rp.Body))
	}
	return sb.String(), nil
}

func okStr(ok bool) string {
	if ok {
		return " (accepted)"
	}
	return " (rejected)"
}

func argKinds(op drv.Op) string {
	s := ""
	if op.T != "" {
		s += " uuid=" + op.T
	}
	return s
}

func (x *c7Exec) checkBranchAddressing(repos map[string]*c7Repo) (*drv.Violation, error) {
	var reqs []proto.Req
	type q struct{ repo, branch, head string }
	var qs []q
	for ru, r := range repos {
		if r == nil {
			continue
		}
		byV := map[int]*c7Node{}
		for _, n := range r.DAG.Nodes {
			byV[n.VersionID] = n
		}
		heads := map[string][]string{}
		for _, n := range r.DAG.Nodes {
			if n.Branch == "" || len(n.Parents) != 1 {
				continue
			}
			cont := false
			for _, c := range n.Children {
				if cn := byV[c]; cn != nil && cn.Branch == n.Branch && len(cn.Parents) == 1 {
					cont = true
				}
			}
			if !cont {
				heads[n.Branch] = append(heads[n.Branch], n.UUID)
			}
		}
		var names []string
		for b := range heads {
			names = append(names, b)
		}
		sort.Strings(names)
		for _, b := range names {
			if len(heads[b]) != 1 || strings.ContainsAny(b, " /:?#%") {
				continue
			}
			qs = append(qs, q{ru, b, heads[b][0]})
			reqs = append(reqs, drv.GET("/api/repo/"+ru+"/branch-versions/"+b))
		}
	}
	if len(reqs) == 0 {
		return nil, nil
	}
	if len(reqs) > 6 {
		reqs, qs = reqs[:6], qs[:6]
	}
	resps, err := x.w.Seq(reqs)
	if err != nil {
		return nil, err
	}
	for i, qq := range qs {
		var list []string
		if resps[i].Status != 200 || json.Unmarshal(resps[i].Body, &list) != nil || len(list) == 0 {
			return c7v("branch-addressing", "branch-versions fails for an existing branch", fmt.Sprintf("branch %q of repo %s: %d %s", qq.branch, qq.repo, resps[i].Status, trunc(resps[i].Body))), nil
		}
		if list[0] != qq.head {
			return c7v("branch-addressing", "branch-versions head differs from graph head", fmt.Sprintf("branch %q of repo %s: graph head %s, branch-versions %v", qq.branch, qq.repo, qq.head, list)), nil
		}
		if x.marked[qq.head] {
			u := "/api/node/" + qq.repo + ":" + qq.branch + "/kv/key/whoami"
			st, b, err := x.w.HTTP("GET", u, nil)
			if err != nil {
				return nil, err
			}
			if st == 200 && string(b) != qq.head {
				return c7v("branch-addressing", "a branch name resolves to a node that is not the head of that branch", fmt.Sprintf("GET %s answers the mark of node %s; the head of branch %q in the graph is %s", u, trunc(b), qq.branch, qq.head)), nil
			}
			if st == 200 {
				x.w.Stats.Probe("branch-leaf-resolution-checked")
			}
		}
		x.w.Stats.Probe("branch-addressing-checked")
	}
	return nil, nil
}

func (C07) NonTrivial(sc *drv.Scenario, st *drv.RunStats) bool {
	rej := false
	for k := range st.Probes {
		if strings.HasPrefix(k, "rejected:") {
			rej = true
		}
	}
	structural := false
	for _, op := range sc.Steps {
		if op.Op == "c7merge" || op.Op == "c7branch" {
			structural = true
		}
	}
	return rej && structural
}
