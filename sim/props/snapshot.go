package props

// Model-free observable snapshot of a server: every catalogue GET for every
// repo, version and data instance.  Used by C03 (restart), C04 (crash), C02
// (immutability), C06 (isolation), C19 (copy).

import (
	"crypto/sha1"
	"encoding/hex"
	"encoding/json"
	"fmt"
	"sort"
	"strings"

	"verif/sim/drv"
	"verif/sim/proto"
)

type Snapshot struct {
	Entries map[string]string // request description -> "status body" (large bodies hashed)
	Order   []string
}

func (s *Snapshot) add(k, v string) {
	if _, ok := s.Entries[k]; !ok {
		s.Order = append(s.Order, k)
	}
	s.Entries[k] = v
}

func bodyRepr(st int, b []byte) string {
	if len(b) > 300 {
		h := sha1.Sum(b)
		return fmt.Sprintf("%d len=%d sha1=%s head=%q", st, len(b), hex.EncodeToString(h[:8]), string(b[:60]))
	}
	return fmt.Sprintf("%d %q", st, string(b))
}

// scrubJSON removes the keys the statement of C03 excludes (mutation-id counter,
// server statistics) and store descriptions that contain run-directory paths.
func scrubJSON(v interface{}, drop map[string]bool) interface{} {
	switch t := v.(type) {
	case map[string]interface{}:
		if len(t) == 0 {
			return nil // an empty object and null are the same setting ("none")
		}
		out := map[string]interface{}{}
		for k, x := range t {
			if drop[k] {
				continue
			}
			out[k] = scrubJSON(x, drop)
		}
		return out
	case []interface{}:
		if len(t) == 0 {
			return nil
		}
		for i := range t {
			t[i] = scrubJSON(t[i], drop)
		}
		return t
	}
	return v
}

var reposInfoDrop = map[string]bool{"MutationID": true, "SavedMutationID": true, "KVStore": true, "LogStore": true}

type SnapOpts struct {
	OnlyVersions map[string]bool // if set, restrict per-version reads to these uuids
	SkipRepoInfo bool
	Label        LabelSnap // optional extra reads for labelmap instances (nil = default catalogue)
	BranchHeads  bool      // also read through "<root>:<branch>" addressing (only where no version is created between the snapshots compared)
}

type LabelSnap interface{}

// TakeSnapshot reads everything the catalogue knows about.
func TakeSnapshot(w *drv.World, o SnapOpts) (*Snapshot, error) {
	s := &Snapshot{Entries: map[string]string{}}
	st, body, err := w.HTTP("GET", "/api/repos/info", nil)
	if err != nil {
		return nil, err
	}
	if st != 200 {
		s.add("GET /api/repos/info", bodyRepr(st, body))
		return s, nil
	}
	var raw map[string]interface{}
	if err := json.Unmarshal(body, &raw); err != nil {
		s.add("GET /api/repos/info", "unparseable "+bodyRepr(st, body))
		return s, nil
	}
	if !o.SkipRepoInfo {
		// Syncs lists are ordered by a UUID-keyed map: compare as sets
		canon := scrubJSON(raw, reposInfoDrop)
		sortSyncs(canon)
		cb, _ := json.Marshal(canon)
		// split per repo so that diffs are readable
		var repoKeys []string
		for k := range raw {
			repoKeys = append(repoKeys, k)
		}
		sort.Strings(repoKeys)
		_ = cb
		for _, k := range repoKeys {
			rb, _ := json.Marshal(canon.(map[string]interface{})[k])
			s.add("repos/info["+k+"]", string(rb))
		}
	}
	repos, err := parseRepos(body)
	if err != nil {
		return s, nil
	}
	var reqs []proto.Req
	var names []string
	addReq := func(r proto.Req) {
		reqs = append(reqs, r)
		names = append(names, r.Method+" "+r.URL+" "+string(r.Body))
	}
	var repoKeys []string
	for k := range repos {
		repoKeys = append(repoKeys, k)
	}
	sort.Strings(repoKeys)
	type instInfo struct{ name, typ string }
	for _, rk := range repoKeys {
		r := repos[rk]
		if r == nil {
			continue
		}
		var insts []instInfo
		for name, rawInst := range r.DataInstances {
			var b struct{ Base struct{ TypeName string } }
			json.Unmarshal(rawInst, &b)
			insts = append(insts, instInfo{name, b.Base.TypeName})
		}
		sort.Slice(insts, func(i, j int) bool { return insts[i].name < insts[j].name })
		var uuids []string
		for u := range r.DAG.Nodes {
			uuids = append(uuids, u)
		}
		sort.Strings(uuids)
		for _, u := range uuids {
			if o.OnlyVersions != nil && !o.OnlyVersions[u] {
				continue
			}
			addReq(drv.GET("/api/node/" + u + "/note"))
			addReq(drv.GET("/api/node/" + u + "/log"))
			addReq(drv.GET("/api/node/" + u + "/status"))
			for _, in := range insts {
				base := "/api/node/" + u + "/" + in.name
				switch in.typ {
				case "keyvalue":
					addReq(drv.GET(base + "/keys"))
					addReq(drv.GET(base + "/keyrangevalues/0/zzzz?tar=true"))
				default:
					for _, r := range catalogueReads(in.typ, base) {
						addReq(r)
					}
				}
			}
		}
	}
	if o.BranchHeads {
		for _, rk := range repoKeys {
			r := repos[rk]
			if r == nil {
				continue
			}
			seen := map[string]bool{}
			var bnames []string
			for _, n := range r.DAG.Nodes {
				b := n.Branch
				if b == "" {
					b = "master"
				}
				if !seen[b] && !strings.ContainsAny(b, " /:?#%") {
					seen[b] = true
					bnames = append(bnames, b)
				}
			}
			sort.Strings(bnames)
			var kvs []string
			for name, rawInst := range r.DataInstances {
				var b struct{ Base struct{ TypeName string } }
				json.Unmarshal(rawInst, &b)
				if b.Base.TypeName == "keyvalue" {
					kvs = append(kvs, name)
				}
			}
			sort.Strings(kvs)
			for _, b := range bnames {
				at := "/api/node/" + r.Root + ":" + b
				addReq(drv.GET(at + "/note"))
				addReq(drv.GET(at + "/log"))
				addReq(drv.GET(at + "/status"))
				for _, name := range kvs {
					addReq(drv.GET(at + "/" + name + "/keys"))
					addReq(drv.GET(at + "/" + name + "/key/whoami"))
				}
			}
		}
	}
	resps, err := w.Seq(reqs)
	if err != nil {
		return nil, err
	}
	for i, r := range resps {
		s.add(names[i], normRead(reqs[i].URL, r.Status, r.Body))
	}
	return s, nil
}

func sortSyncs(v interface{}) {
	switch t := v.(type) {
	case map[string]interface{}:
		for k, x := range t {
			if k == "Syncs" {
				if arr, ok := x.([]interface{}); ok {
					sort.Slice(arr, func(i, j int) bool { return fmt.Sprint(arr[i]) < fmt.Sprint(arr[j]) })
				}
			}
			sortSyncs(x)
		}
	case []interface{}:
		for _, x := range t {
			sortSyncs(x)
		}
	}
}

// Diff returns a readable description of the first differences, "" if equal.
func (s *Snapshot) Diff(o *Snapshot) string {
	var out []string
	seen := map[string]bool{}
	for _, k := range s.Order {
		seen[k] = true
		ov, ok := o.Entries[k]
		if !ok {
			out = append(out, "only before: "+k+" -> "+clip(s.Entries[k], 300))
		} else if ov != s.Entries[k] {
			out = append(out, "differs: "+k+"\n    before: "+clip(firstDiffCtx(s.Entries[k], ov), 600)+"\n    after:  "+clip(firstDiffCtx(ov, s.Entries[k]), 600))
		}
	}
	for _, k := range o.Order {
		if !seen[k] {
			out = append(out, "only after: "+k+" -> "+clip(o.Entries[k], 300))
		}
	}
	if len(out) > 6 {
		out = append(out[:6], fmt.Sprintf("... and %d more differences", len(out)-6))
	}
	return strings.Join(out, "\n")
}

// DiffClass returns a coarse, stable class of the first difference (for signatures).
func (s *Snapshot) DiffClass(o *Snapshot) string {
	for _, k := range s.Order {
		ov, ok := o.Entries[k]
		if !ok || ov != s.Entries[k] {
			return classifyKey(k)
		}
	}
	for _, k := range o.Order {
		if _, ok := s.Entries[k]; !ok {
			return classifyKey(k)
		}
	}
	return ""
}

func classifyKey(k string) string {
	if strings.HasPrefix(k, "repos/info") {
		return "repos/info"
	}
	// "GET /api/node/<uuid>/<inst>/<endpoint>..." -> inst-type independent endpoint name
	parts := strings.Split(strings.Fields(k + " x")[1], "/")
	if len(parts) >= 4 && strings.Contains(parts[3], ":") {
		return "what <root>:<branch> resolves to"
	}
	if len(parts) >= 6 {
		ep := parts[5]
		if i := strings.IndexAny(ep, "?"); i >= 0 {
			ep = ep[:i]
		}
		return parts[4] + "/" + ep
	}
	if len(parts) >= 5 {
		return "node/" + parts[4]
	}
	return k
}

func clip(s string, n int) string {
	if len(s) > n {
		return s[:n] + "..."
	}
	return s
}

// firstDiffCtx returns a window of a around the first position where it differs from b.
func firstDiffCtx(a, b string) string {
	i := 0
	for i < len(a) && i < len(b) && a[i] == b[i] {
		i++
	}
	lo := i - 120
	if lo < 0 {
		lo = 0
	}
	hi := i + 200
	if hi > len(a) {
		hi = len(a)
	}
	pre := ""
	if lo > 0 {
		pre = "..."
	}
	return pre + a[lo:hi]
}

// catalogueReads lists the read endpoints of the other data types (filled in by
// the per-type files).
var catalogueFns = map[string]func(base string) []proto.Req{}

func catalogueReads(typ, base string) []proto.Req {
	if f, ok := catalogueFns[typ]; ok {
		return f(base)
	}
	return []proto.Req{drv.GET(base + "/info")}
}

// normRead canonicalises responses whose byte form is not determined by the content:
// instance info (null vs empty containers, store descriptions) and neuronjson lists whose
// order the API leaves open (all, query: set; keys: numeric order).
func normRead(url string, st int, body []byte) string {
	path := url
	if i := strings.IndexByte(path, '?'); i >= 0 {
		path = path[:i]
	}
	if st == 200 && strings.HasSuffix(path, "/info") {
		var v interface{}
		if json.Unmarshal(body, &v) == nil {
			b, _ := json.Marshal(scrubJSON(v, reposInfoDrop))
			return bodyRepr(st, b)
		}
	}
	if st == 200 && strings.HasSuffix(path, "/mappings") {
		// one "supervoxel label" line per mapping, in no particular order
		lines := strings.Split(strings.TrimSpace(string(body)), "\n")
		sort.Strings(lines)
		return bodyRepr(st, []byte(strings.Join(lines, "\n")))
	}
	if st == 200 && strings.Contains(path, "/nj/") {
		switch {
		case strings.HasSuffix(path, "/all") || strings.HasSuffix(path, "/query") || strings.HasSuffix(path, "/fields") && !strings.Contains(url, "counts"):
			var l []interface{}
			if json.Unmarshal(body, &l) == nil {
				var items []string
				for _, x := range l {
					b, _ := json.Marshal(x)
					items = append(items, string(b))
				}
				sort.Strings(items)
				return bodyRepr(st, []byte("["+strings.Join(items, ",")+"]"))
			}
		case strings.HasSuffix(path, "/keys"):
			var l []string
			if json.Unmarshal(body, &l) == nil {
				sort.Slice(l, func(i, j int) bool {
					if len(l[i]) != len(l[j]) {
						return len(l[i]) < len(l[j])
					}
					return l[i] < l[j]
				})
				return bodyRepr(st, []byte(strings.Join(l, ",")))
			}
		}
	}
	return bodyRepr(st, body)
}
