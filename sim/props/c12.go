package props

import (
	"os"
	"errors"
	"fmt"
	"math/rand/v2"
	"sort"
	"time"

	"verif/sim/drv"
	"verif/sim/proto"
)

// C12 — server-issued identifiers are unique and only move forward.
type C12 struct{ drv.CheckBase }

func init() { drv.Register(&C12{}) }

func (C12) ID() string    { return "C12" }
func (C12) Level() string { return "exploration" }
func (C12) Rule() string {
	return "each run = one seeded allocation-heavy label history (cleaves, supervoxel splits, next-label requests, merges and mutating writes as mutation-id consumers, ingests of arbitrary labels, " +
		"new versions and instances) with: concurrent batches of 2-4 allocating requests interleaved by the scheduler; min_mutation_id_start placed 0-2 below a stride boundary; clean and kill restarts; " +
		"process exit before/after a randomly chosen write of an allocating operation; a stride-race family in which merges on two labelmap instances of one repository are issued together exactly on the persist-ahead boundary (every 100th id, min_mutation_id_start above DVID's built-in 1e9) with the process killed at the write of the persisted bound - also in the 'held' mode, where that write stays pending until every other request that can be answered has been answered (priority scheduling policy); ids acknowledged before the kill count; an acknowledged ingest whose background max-label update the scheduler has not yet released, followed by a kill. " +
		"Oracle over the whole multi-lifetime history: no allocated label, mutation id or version id is issued twice; labels and mutation ids increase in issue order (within a concurrent batch: distinct and above everything before the batch); " +
		"every allocated label is greater than every label present in the volume at any version (labels of acknowledged requests). After a crash the model is re-synchronised from the server because the interrupted operation's effect is unknown. " +
		"non-trivial = at least one allocation after a restart/crash or inside a concurrent batch; distinct = distinct (steps, schedule, faults) hash"
}
func (C12) Assumptions() []string {
	return append([]string{"instance ids and repo ids are not visible through the HTTP API; they are covered indirectly (C06 raw-key scans)"}, commonAssumptions...)
}
func (C12) Budget(tier string) (int, time.Duration) {
	return budget(tier, 160, 12000, 100*time.Second, 30*time.Minute)
}

func (C12) Generate(r *rand.Rand, tier string, idx int) *drv.Scenario {
	seed := func() int64 { return int64(r.Uint64N(1 << 40)) }
	extra := func(r *rand.Rand, open []int) *drv.Op {
		v := pick(r, open)
		switch r.IntN(10) {
		case 0, 1, 2:
			return &drv.Op{Op: "paralloc", V: v, N: seed()}
		case 3, 4:
			inner := drv.Op{Op: pick(r, []string{"cleave", "splitsv", "nextlabel", "lmerge", "ingest"}), V: v, N: seed()}
			return &drv.Op{Op: "crashop", V: v, M: int64(1 + r.IntN(14)), Mode: pick(r, []string{"before", "after"}), Sub: []drv.Op{inner}}
		case 5:
			return &drv.Op{Op: "ingestkill", V: v, N: seed()}
		case 6, 7:
			return &drv.Op{Op: "restart", Mode: pick(r, []string{"clean", "kill"})}
		default:
			return &drv.Op{Op: pick(r, []string{"cleave", "nextlabel", "splitsv"}), V: v, N: seed()}
		}
	}
	steps := GenLabelHistory(r, 10+r.IntN(16), 0, 0.05, extra)
	fam := "allocation"
	if r.IntN(4) == 0 {
		// stride family: cross the persist-ahead boundary (100 ids) inside one lifetime, with
		// visible mutation ids before and after, then stop the server and allocate again
		fam = "stride"
		var out []drv.Op
		out = append(out, steps[:3]...)
		out = append(out, drv.Op{Op: "ingest", V: 0, N: seed()}, drv.Op{Op: "lmerge", V: 0, N: seed()},
			drv.Op{Op: "burn", V: 0, N: int64(92 + r.IntN(12))}, drv.Op{Op: "cleave", V: 0, N: seed()}, drv.Op{Op: "lmerge", V: 0, N: seed()},
			drv.Op{Op: "burn", V: 0, N: int64(r.IntN(8))}, drv.Op{Op: "cleave", V: 0, N: seed()})
		if r.IntN(2) == 0 {
			out = append(out, drv.Op{Op: "restart", Mode: pick(r, []string{"clean", "kill"})})
		} else {
			out = append(out, drv.Op{Op: "crashop", V: 0, M: int64(1 + r.IntN(6)), Mode: pick(r, []string{"before", "after"}), Sub: []drv.Op{{Op: "lmerge", V: 0, N: seed()}}})
		}
		out = append(out, drv.Op{Op: "lmerge", V: 0, N: seed()}, drv.Op{Op: "cleave", V: 0, N: seed()}, drv.Op{Op: "splitsv", V: 0, N: seed()})
		out = append(out, steps[3:]...)
		steps = out
	}
	if fam == "allocation" && r.IntN(4) == 0 {
		// stride-race family: concurrent mutation-id consumers around the persist-ahead boundary, with the
		// process killed at the write of the persisted bound; ids acknowledged before the kill count
		fam = "stride-race"
		var out []drv.Op
		out = append(out, steps[:3]...)
		out = append(out, drv.Op{Op: "ingest", V: 0, N: seed()}, drv.Op{Op: "ingest", V: 0, N: seed()}, drv.Op{Op: "ingest", V: 0, N: seed()})
		for i := 0; i < 3; i++ {
			// a visible mutation id first, so that the distance to the boundary is known
			out = append(out, drv.Op{Op: "cleave", V: 0, N: seed()}, drv.Op{Op: "lmerge", V: 0, N: seed()},
				drv.Op{Op: "stridecrash", V: 0, N: seed(), M: int64(r.IntN(3)), Mode: pick(r, []string{"before", "after", "held", "held"})})
		}
		out = append(out, drv.Op{Op: "lmerge", V: 0, N: seed()}, drv.Op{Op: "cleave", V: 0, N: seed()}, drv.Op{Op: "lcheckall"})
		steps = out
	}
	k := baseKnobs(r)
	if fam == "stride-race" {
		k.Bias = 2 // let one request finish while the boundary-crossing one stays parked at its metadata write
	}
	// min_mutation_id_start only counts above DVID's built-in 1e9: 0-2 below a multiple of 100 beyond it
	k.MutIDStart = 1000000000 + 1000*uint64(1+r.IntN(50)) + 100*uint64(r.IntN(10)) - uint64(r.IntN(3))
	return lockSwarm(&drv.Scenario{Family: fam, Knobs: k, Steps: steps, Fixed: 2}, idx)
}

type c12State struct {
	seg2Pairs int // stride-race family: next unused supervoxel pair of the second labelmap instance (0 = not created)
	vids      map[int]string // version id -> uuid, over the whole history
	afterStop bool           // a restart/crash happened since the last allocation
}

func (s *c12State) checkVersionIDs(w *drv.World) (*drv.Violation, error) {
	st, body, err := w.HTTP("GET", "/api/repos/info", nil)
	if err != nil || st != 200 {
		return nil, err
	}
	repos, err := parseRepos(body)
	if err != nil {
		return nil, nil
	}
	if class, det := graphInvariants(repos); class != "" {
		return &drv.Violation{Prop: "C12", Oracle: "version-ids", Sig: "graph malformed: " + class, Detail: det}, nil
	}
	for _, r := range repos {
		for u, n := range r.DAG.Nodes {
			if prev, ok := s.vids[n.VersionID]; ok && prev != u {
				return &drv.Violation{Prop: "C12", Oracle: "version-ids", Sig: "version id issued twice", Detail: fmt.Sprintf("version id %d named %s earlier and %s now", n.VersionID, prev, u)}, nil
			}
			s.vids[n.VersionID] = u
		}
	}
	return nil, nil
}

func (c C12) Execute(sc *drv.Scenario, w *drv.World) (*drv.Violation, error) {
	if _, err := w.Start(); err != nil {
		return nil, err
	}
	x := NewLabelExec(w, "C12")
	s := &c12State{vids: map[int]string{}}
	for i, op := range sc.Steps {
		w.CurStep = i
		var v *drv.Violation
		var err error
		nAllocBefore := len(x.AllocLabels) + len(x.MutIDs)
		switch op.Op {
		case "lcheck":
			continue
		case "lcheckall":
			if v = x.CheckMutIDs(); v == nil {
				v, err = s.checkVersionIDs(w)
			}
		case "paralloc":
			v, err = c.parAlloc(x, op)
		case "crashop":
			v, err = c.crashOp(x, s, op)
		case "ingestkill":
			v, err = c.ingestKill(x, s, op)
		case "burn":
			err = c.burn(x, op)
		case "stridecrash":
			v, err = c.strideCrash(x, s, op)
		case "restart":
			_, v, err = x.Apply(op)
			s.afterStop = true
			if err == nil && v == nil {
				v, err = s.checkVersionIDs(w)
			}
		default:
			_, v, err = x.Apply(op)
			if v != nil && (v.Prop != "C12" || v.Oracle == "write-ack") {
				// label-content refusals are C08's business; here they only mean model drift
				w.Stats.Probe("non-id-violation-ignored:" + v.Oracle)
				v = nil
				if e := x.Resync(); e != nil {
					return nil, e
				}
			}
			if err == nil && v == nil && (op.Op == "newver" || op.Op == "branch") {
				v, err = s.checkVersionIDs(w)
			}
		}
		if err != nil {
			return nil, err
		}
		if v == nil {
			v = x.CheckMutIDs()
		}
		if v != nil {
			v.Step = i
			return v, nil
		}
		if len(x.AllocLabels)+len(x.MutIDs) > nAllocBefore && s.afterStop {
			w.Stats.Probe("allocation-after-restart-or-crash")
			s.afterStop = false
		}
	}
	w.Discard()
	return nil, nil
}

// parAlloc: 2-4 allocating requests at one version, interleaved by the scheduler.
func (c C12) parAlloc(x *LabelExec, op drv.Op) (*drv.Violation, error) {
	if x.M == nil || !x.D.Has(op.V) || x.D.Nodes[op.V].Locked {
		return nil, nil
	}
	r := drv.NewRNG(uint64(op.N) + 77)
	lv := x.M.Versions[op.V]
	bs := lv.BodySVs()
	var multi []uint64
	for b, svs := range bs {
		if len(svs) >= 2 {
			multi = append(multi, b)
		}
	}
	sort.Slice(multi, func(i, j int) bool { return multi[i] < multi[j] })
	type pend struct {
		kind string
		body uint64
		svs  []uint64
		n    int
	}
	var reqs []proto.Req
	var pends []pend
	nreq := 2 + r.IntN(3)
	used := map[uint64]bool{}
	raise := uint64(0)
	for i := 0; i < nreq; i++ {
		cl := fmt.Sprintf("c%d", i+1)
		if raise == 0 && i > 0 && r.IntN(3) == 0 {
			// an administrator raises the max label to just above the current one while others allocate
			raise = x.M.MaxEver + 1 + uint64(r.IntN(4))
			reqs = append(reqs, proto.Req{Client: cl, Kind: "http", Method: "POST", URL: fmt.Sprintf("%s/maxlabel/%d", x.base(op.V), raise)})
			pends = append(pends, pend{kind: "setmax"})
			continue
		}
		if len(multi) > 0 && r.IntN(2) == 0 {
			b := pick(r, multi)
			if used[b] {
				continue
			}
			used[b] = true
			svs := append([]uint64(nil), bs[b]...)
			k := 1 + r.IntN(len(svs)-1)
			reqs = append(reqs, proto.Req{Client: cl, Kind: "http", Method: "POST", URL: fmt.Sprintf("%s/cleave/%d", x.base(op.V), b), Body: jsonU64s(svs[:k])})
			pends = append(pends, pend{kind: "cleave", body: b, svs: svs[:k]})
		} else {
			n := 1 + r.IntN(3)
			reqs = append(reqs, proto.Req{Client: cl, Kind: "http", Method: "POST", URL: fmt.Sprintf("%s/nextlabel/%d", x.base(op.V), n)})
			pends = append(pends, pend{kind: "nextlabel", n: n})
		}
	}
	if len(reqs) < 2 {
		return nil, nil
	}
	res, err := x.W.Batch(reqs, "barrier")
	if err != nil {
		return nil, err
	}
	if res.Wedged {
		return nil, x.W.ClassifyWedge("concurrent allocation\n"+descReqs(reqs), res.Stacks)
	}
	maxBefore := x.M.MaxEver
	var lastMut uint64
	if n := len(x.MutIDs); n > 0 {
		lastMut = x.MutIDs[n-1]
	}
	var labels, muts []uint64
	detail := descReqs(reqs)
	for i, p := range pends {
		rp := res.Resps[i]
		detail += fmt.Sprintf("  -> %s: %d %s\n", rp.Client, rp.Status, trunc(rp.Body))
		if rp.Status != 200 {
			x.W.Stats.Probe("concurrent-allocation-refused")
			continue
		}
		m := parseMutResp(rp.Body)
		switch p.kind {
		case "cleave":
			nl := m["CleavedLabel"]
			labels = append(labels, nl)
			muts = append(muts, m["MutationID"])
			for _, sv := range p.svs {
				lv.Map[sv] = nl
			}
		case "nextlabel":
			for l := m["start"]; l <= m["end"] && m["start"] != 0; l++ {
				labels = append(labels, l)
			}
		case "setmax":
			x.M.note(raise)
			x.W.Stats.Probe("concurrent-maxlabel-raise")
		}
	}
	x.W.Stats.Probe("concurrent-allocation-batches")
	seen := map[uint64]bool{}
	for _, p := range x.AllocLabels {
		seen[p] = true
	}
	for _, l := range labels {
		if seen[l] {
			return &drv.Violation{Prop: "C12", Oracle: "label-unique", Sig: "allocated label issued twice (concurrent requests)", Detail: fmt.Sprintf("label %d issued twice\n%s", l, detail)}, nil
		}
		seen[l] = true
		if l <= maxBefore {
			return &drv.Violation{Prop: "C12", Oracle: "label-above-present", Sig: "allocated label not above the labels present (concurrent requests)", Detail: fmt.Sprintf("label %d, but %d was present or issued before the batch\n%s", l, maxBefore, detail)}, nil
		}
	}
	sort.Slice(labels, func(i, j int) bool { return labels[i] < labels[j] })
	for _, l := range labels {
		x.AllocLabels = append(x.AllocLabels, l)
		x.M.note(l)
	}
	seenM := map[uint64]bool{}
	for _, id := range muts {
		if id == 0 {
			continue
		}
		if seenM[id] || id <= lastMut {
			return &drv.Violation{Prop: "C12", Oracle: "mutation-id-unique", Sig: "mutation id reused or not increasing (concurrent requests)", Detail: fmt.Sprintf("mutation ids of the batch %v, last before the batch %d\n%s", muts, lastMut, detail)}, nil
		}
		seenM[id] = true
	}
	sort.Slice(muts, func(i, j int) bool { return muts[i] < muts[j] })
	for _, id := range muts {
		if id != 0 {
			x.MutIDs = append(x.MutIDs, id)
		}
	}
	if raise != 0 {
		// the counter must have ended above everything the batch handed out, whatever the order was
		st, body, err := x.post(fmt.Sprintf("%s/nextlabel/1", x.base(op.V)), nil)
		if err != nil {
			return nil, err
		}
		if st == 200 {
			l := parseMutResp(body)["start"]
			if seen[l] || l <= x.M.MaxEver {
				return &drv.Violation{Prop: "C12", Oracle: "label-above-present", Sig: "allocated label not above the labels present (after a concurrent max-label raise)",
					Detail: fmt.Sprintf("nextlabel/1 after the batch hands out %d; %d was present or issued before\n%s", l, x.M.MaxEver, detail)}, nil
			}
			x.AllocLabels = append(x.AllocLabels, l)
			x.M.note(l)
		}
	}
	return nil, nil
}

// burn consumes mutation ids cheaply (idempotent mutating rewrites of one block) so that the
// persist-ahead stride of 100 ids is crossed within one server lifetime.
func (c C12) burn(x *LabelExec, op drv.Op) error {
	if x.M == nil || !x.D.Has(op.V) || x.D.Nodes[op.V].Locked {
		return nil
	}
	g := x.M.Geom
	lv := x.M.Versions[op.V]
	data := make([]uint64, g.B*g.B*g.B)
	i := 0
	for z := 0; z < g.B; z++ {
		for y := 0; y < g.B; y++ {
			for xx := 0; xx < g.B; xx++ {
				data[i] = lv.Vox[g.idx(xx, y, z)]
				i++
			}
		}
	}
	if !lv.Written[0] {
		return nil
	}
	body := u64sToBytes(data)
	url := x.boxURL(op.V, [3]int{0, 0, 0}, [3]int{1, 1, 1}) + "?mutate=true"
	var reqs []proto.Req
	for k := 0; k < int(op.N); k++ {
		reqs = append(reqs, proto.Req{Client: "c0", Kind: "http", Method: "POST", URL: url, Body: body})
	}
	resps, err := x.W.SeqFast(reqs)
	if err != nil {
		return err
	}
	for _, r := range resps {
		if r.Status == 200 {
			x.W.Stats.Probe("mutation-ids-burnt")
		}
	}
	return nil
}

// crashOp: process exit before/after the M-th write of an allocating operation, then restart.
func (c C12) crashOp(x *LabelExec, s *c12State, op drv.Op) (*drv.Violation, error) {
	if x.M == nil || len(op.Sub) == 0 {
		return nil, nil
	}
	if err := x.W.SetFaults(&proto.FaultPlan{CrashAtWrite: int(op.M), CrashSide: op.Mode}); err != nil {
		return nil, err
	}
	_, v, err := x.Apply(op.Sub[0])
	if err != nil && !errors.Is(err, drv.ErrPlannedCrash) {
		return nil, err
	}
	crashed := errors.Is(err, drv.ErrPlannedCrash)
	if !crashed {
		// the operation finished before the chosen write: disarm
		if err := x.W.SetFaults(&proto.FaultPlan{}); err != nil {
			return nil, err
		}
		if v != nil && (v.Prop != "C12" || v.Oracle == "write-ack") {
			v = nil
		}
		return v, nil
	}
	x.W.Stats.Probe("crash-inside-allocating-op")
	if _, err := x.W.Start(); err != nil {
		return nil, err
	}
	s.afterStop = true
	if err := x.Resync(); err != nil {
		return nil, err
	}
	return s.checkVersionIDs(x.W)
}

// ingestKill: an ingest is acknowledged, its background work (index aggregation, max-label
// update) is left parked by the scheduler, and the process is killed.
func (c C12) ingestKill(x *LabelExec, s *c12State, op drv.Op) (*drv.Violation, error) {
	if x.M == nil || !x.D.Has(op.V) || x.D.Nodes[op.V].Locked {
		return nil, nil
	}
	lv := x.M.Versions[op.V]
	g := x.M.Geom
	// one blank block, if any
	bi := -1
	for i, wr := range lv.Written {
		if !wr {
			bi = i
			break
		}
	}
	if bi < 0 {
		return nil, nil
	}
	b0 := [3]int{bi % g.G[0], (bi / g.G[0]) % g.G[1], bi / (g.G[0] * g.G[1])}
	r := drv.NewRNG(uint64(op.N) + 5)
	l1, l2 := x.newSV(r), x.newSV(r)+3
	data := genLayout(r, [3]int{g.B, g.B, g.B}, []uint64{l1, l2}, false)
	res, err := x.W.Batch([]proto.Req{{Client: "c1", Kind: "http", Method: "POST", URL: x.boxURL(op.V, b0, [3]int{1, 1, 1}), Body: u64sToBytes(data)}}, "return")
	if err != nil {
		return nil, err
	}
	if res.Wedged || res.Resps[0].Status != 200 {
		return nil, nil
	}
	if res.Parked > 0 {
		x.W.Stats.Probe("acknowledged-ingest-with-unsettled-background-work")
	}
	// acknowledged: the labels are present in the volume from the client's point of view
	x.M.SetBox(op.V, b0, [3]int{1, 1, 1}, data)
	if _, err := x.W.Restart("kill"); err != nil {
		return nil, err
	}
	s.afterStop = true
	// the content may or may not have been fully indexed: adopt the server's view of the voxels,
	// but keep MaxEver (the acknowledged labels were present)
	keep := x.M.MaxEver
	if err := x.Resync(); err != nil {
		return nil, err
	}
	if keep > x.M.MaxEver {
		x.M.MaxEver = keep
	}
	return nil, nil
}

func (C12) NonTrivial(sc *drv.Scenario, st *drv.RunStats) bool {
	return st.Probes["allocation-after-restart-or-crash"] > 0 || st.Probes["concurrent-allocation-batches"] > 0
}

// strideCrash: 2-3 merges of disjoint body pairs are issued together with a crash armed at the write of the
// persisted mutation-id bound (metadata key class 7).  If the batch crosses the stride the process dies
// around that write; merges answered before count as acknowledged and their ids must never be issued again.
func (c C12) strideCrash(x *LabelExec, s *c12State, op drv.Op) (*drv.Violation, error) {
	if x.M == nil || !x.D.Has(op.V) || x.D.Nodes[op.V].Locked {
		return nil, nil
	}
	r := drv.NewRNG(uint64(op.N) + 99)
	lv := x.M.Versions[op.V]
	bodies := sortedBodies(lv)
	if len(bodies) < 4 {
		return nil, nil
	}
	r.Shuffle(len(bodies), func(i, j int) { bodies[i], bodies[j] = bodies[j], bodies[i] })
	bs := lv.BodySVs()
	n := 2
	if len(bodies) >= 6 && r.IntN(2) == 0 {
		n = 3
	}
	var reqs []proto.Req
	for i := 0; i < n; i++ {
		reqs = append(reqs, proto.Req{Client: fmt.Sprintf("c%d", i+1), Kind: "http", Method: "POST", URL: x.base(op.V) + "/merge", Body: jsonU64s([]uint64{bodies[2*i], bodies[2*i+1]})})
	}
	// Body-level mutations of one instance run one at a time; mutation ids are per repository, so the
	// request that overlaps them goes to a second labelmap instance of the same repository.
	if s.seg2Pairs == 0 {
		u := x.uuid(0)
		st, body, err := x.W.HTTP("POST", "/api/repo/"+u+"/instance", jsonBody(map[string]interface{}{"typename": "labelmap", "dataname": "seg2", "BlockSize": "16,16,16", "MaxDownresLevel": "0"}))
		if err != nil {
			return nil, err
		}
		if st != 200 {
			return nil, fmt.Errorf("%w: cannot create seg2: %d %s", drv.ErrInfra, st, body)
		}
		vol := make([]uint64, 16*16*16)
		for i := range vol {
			vol[i] = uint64(1 + (i/256)%16) // 16 slabs = 16 supervoxels
		}
		if st, body, err := x.W.HTTP("POST", "/api/node/"+x.uuid(op.V)+"/seg2/raw/0_1_2/16_16_16/0_0_0", u64sToBytes(vol)); err != nil || st != 200 {
			if err == nil {
				err = fmt.Errorf("%w: seg2 ingest: %d %s", drv.ErrInfra, st, body)
			}
			return nil, err
		}
		s.seg2Pairs = 1
	}
	if s.seg2Pairs <= 7 {
		a := uint64(2*s.seg2Pairs - 1)
		reqs = append(reqs, proto.Req{Client: "c9", Kind: "http", Method: "POST", URL: "/api/node/" + x.uuid(op.V) + "/seg2/merge", Body: jsonU64s([]uint64{a, a + 1})})
		s.seg2Pairs++
	}
	// place the batch on the boundary: ids that trigger the persist of the next bound are those
	// congruent to (first id of the repository - 1) modulo the stride of 100
	if nm := len(x.MutIDs); nm > 0 {
		next := x.MutIDs[nm-1] + 1
		start := x.W.Knobs.MutIDStart
		if start < 1000000000 {
			start = 1000000000
		}
		j := uint64(int(op.M) % (n + 1)) // the trigger id is the (j+1)-th id of the batch
		trigger := next + j
		for (trigger+1)%100 != start%100 {
			trigger++
		}
		if burnN := int64(trigger) - int64(j) - int64(next); burnN > 0 && burnN < 100 {
			if err := c.burn(x, drv.Op{Op: "burn", V: op.V, N: burnN}); err != nil {
				return nil, err
			}
		}
	}
	if err := x.W.SetFaults(&proto.FaultPlan{CrashAtWrite: 1, CrashSide: op.Mode, CrashMatch: "Put 0007"}); err != nil {
		return nil, err
	}
	res, err := x.W.Batch(reqs, "barrier")
	crashed := errors.Is(err, drv.ErrPlannedCrash)
	if err != nil && !crashed {
		return nil, err
	}
	if !crashed && res.Wedged {
		return nil, x.W.ClassifyWedge("concurrent merges\n"+descReqs(reqs), res.Stacks)
	}
	var muts []uint64
	if res != nil {
		for i, rp := range res.Resps {
			if !rp.Done || rp.Status != 200 {
				continue
			}
			if id, ok := parseMutResp(rp.Body)["MutationID"]; ok {
				muts = append(muts, id)
			}
			if !crashed && i < n {
				for _, sv := range bs[bodies[2*i+1]] {
					lv.Map[sv] = bodies[2*i]
				}
			}
		}
	}
	sort.Slice(muts, func(i, j int) bool { return muts[i] < muts[j] })
	if os.Getenv("VERIF_TRACE") != "" {
		fmt.Fprintf(os.Stderr, "TRACE stridecrash start=%d last=%v got=%v crashed=%v\n", x.W.Knobs.MutIDStart, x.MutIDs[max(0, len(x.MutIDs)-2):], muts, crashed)
	}
	x.MutIDs = append(x.MutIDs, muts...)
	if !crashed {
		x.W.Stats.Probe("label-merge")
		return nil, x.W.SetFaults(&proto.FaultPlan{})
	}
	x.W.Stats.Probe("crash-at-mutation-id-bound-write")
	if len(muts) > 0 {
		x.W.Stats.Probe("ids-acknowledged-before-crash-at-bound-write")
	}
	if _, err := x.W.Start(); err != nil {
		return nil, err
	}
	s.afterStop = true
	if err := x.Resync(); err != nil {
		return nil, err
	}
	return s.checkVersionIDs(x.W)
}
