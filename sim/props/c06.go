package props

import (
	"encoding/hex"
	"encoding/json"
	"fmt"
	"math/rand/v2"
	"sort"
	"strings"
	"time"

	"verif/sim/drv"
	"verif/sim/proto"
)

// C06 — storage keys isolate data instances, data and versions (consequence clause).
type C06 struct{ drv.CheckBase }

func init() { drv.Register(&C06{}) }

func (C06) ID() string    { return "C06" }
func (C06) Level() string { return "exploration" }
func (C06) Rule() string {
	return "each run = one seeded history that creates several key-value instances (versioned and unversioned) in one or two repos, writes and deletes keys (mutually prefixing) over a few versions, deletes an instance " +
		"(the deletion is a background sweep whose progress the scheduler interleaves with foreground writes to the neighbouring instances and with the creation of a NEW instance), re-creates an instance under the old name, " +
		"and restarts (also in the middle of a sweep); instance_id_start is randomised including values next to byte boundaries (0xFF, 0xFFFF) and near 2^32. " +
		"Oracle after every settle point: every live instance reads back exactly its own model (point reads and key listing at every version), a newly created instance is empty, " +
		"and a raw store scan over one instance's key range yields only keys carrying that instance id, ascending. Only the history/consequence clause of C06 is claimed; the key-function clause is a pure function (not applicable). " +
		"non-trivial = an instance was deleted while another instance held data; distinct = distinct (steps, schedule, faults) hash"
}
func (C06) Assumptions() []string { return commonAssumptions }
func (C06) Budget(tier string) (int, time.Duration) {
	return budget(tier, 300, 20000, 90*time.Second, 25*time.Minute)
}

func (C06) Generate(r *rand.Rand, tier string, idx int) *drv.Scenario {
	var steps []drv.Op
	steps = append(steps, drv.Op{Op: "repo", R: 0, N: 0})
	d := NewDAG()
	d.Add(0, VUUID(0), nil, "", 0)
	names := []string{"ia", "ib", "ic", "id"}
	live := map[string]bool{}
	keys := []string{"a", "aa", "ab", "b", "k", "zz"}
	valc := 0
	nv := func() string { valc++; return fmt.Sprintf("val%d", valc) }
	create := func(n string) {
		op := drv.Op{Op: "inst", R: 0, I: n, T: "keyvalue"}
		if r.IntN(5) == 0 {
			op.N = 1
		}
		steps = append(steps, op)
		live[n] = true
	}
	create("ia")
	create("ib")
	n := 14 + r.IntN(26)
	for i := 0; i < n; i++ {
		var lv []string
		for _, nm := range names {
			if live[nm] {
				lv = append(lv, nm)
			}
		}
		open := d.Open(0)
		switch x := r.IntN(100); {
		case x < 45 && len(lv) > 0 && len(open) > 0:
			steps = append(steps, drv.Op{Op: "put", V: pick(r, open), I: pick(r, lv), K: pick(r, keys), Val: nv()})
		case x < 55 && len(lv) > 0 && len(open) > 0:
			steps = append(steps, drv.Op{Op: "del", V: pick(r, open), I: pick(r, lv), K: pick(r, keys)})
		case x < 65 && len(lv) > 1:
			nm := pick(r, lv)
			delete(live, nm)
			mode := "settle"
			if r.IntN(2) == 0 {
				mode = "nowait"
			}
			steps = append(steps, drv.Op{Op: "instdel", I: nm, Mode: mode})
			if mode == "nowait" && r.IntN(2) == 0 && len(open) > 0 {
				// re-create the same name at once and write to it while the old sweep is still in flight
				create(nm)
				steps = append(steps, drv.Op{Op: "put", V: pick(r, open), I: nm, K: pick(r, keys), Val: nv()})
			}
		case x < 77:
			var dead []string
			for _, nm := range names {
				if !live[nm] {
					dead = append(dead, nm)
				}
			}
			if len(dead) > 0 && len(open) > 0 {
				create(pick(r, dead))
			}
		case x < 82 && len(open) > 0:
			v := pick(r, open)
			d.Nodes[v].Locked = true
			steps = append(steps, drv.Op{Op: "commit", V: v})
		case x < 88:
			var c []int
			for _, p := range d.LockedNodes(0) {
				if d.CanNewVersion(p) {
					c = append(c, p)
				}
			}
			if len(c) > 0 && len(d.Nodes) < 5 {
				p := pick(r, c)
				idx := d.NextIdx()
				d.Add(idx, VUUID(idx), []int{p}, "", 0)
				steps = append(steps, drv.Op{Op: "newver", V: p, N: int64(idx)})
			}
		case x < 92:
			steps = append(steps, drv.Op{Op: "restart", Mode: pick(r, []string{"clean", "kill"})})
		default:
			steps = append(steps, drv.Op{Op: "check"})
		}
	}
	steps = append(steps, drv.Op{Op: "check"})
	k := baseKnobs(r)
	switch r.IntN(6) {
	case 0:
		k.IIDStart = 0xFE + uint32(r.IntN(3))
	case 1:
		k.IIDStart = 0xFFFE + uint32(r.IntN(3))
	case 2:
		k.IIDStart = 0xFFFFFFF0 + uint32(r.IntN(8))
	case 3:
		k.IIDStart = 0xFFFFFE + uint32(r.IntN(3))
	}
	return &drv.Scenario{Family: "kv-instances", Knobs: k, Steps: steps, Fixed: 3}
}

func (c C06) Execute(sc *drv.Scenario, w *drv.World) (*drv.Violation, error) {
	if _, err := w.Start(); err != nil {
		return nil, err
	}
	x := NewKVExec(w)
	deletedWhileNeighbourHadData := false
	for i, op := range sc.Steps {
		w.CurStep = i
		switch op.Op {
		case "inst":
			if _, exists := x.Insts[op.I]; exists {
				continue
			}
			_, v, err := x.ApplyDAGOp(op)
			if err != nil || v != nil {
				return v, err
			}
			if m := x.Insts[op.I]; m != nil {
				// a newly created instance is empty, whatever was deleted before
				root := x.uuid(x.RepoRoot[0])
				var reqs []proto.Req
				for _, vi := range x.D.Sorted() {
					reqs = append(reqs, drv.GET("/api/node/"+x.uuid(vi)+"/"+op.I+"/keys"))
				}
				_ = root
				resps, err := w.Seq(reqs)
				if err != nil {
					return nil, err
				}
				for j, rp := range resps {
					if rp.Status != 200 || strings.TrimSpace(string(rp.Body)) != "[]" {
						return &drv.Violation{Prop: "C06", Oracle: "new-instance-empty", Sig: "newly created instance is not empty", Step: i,
							Detail: fmt.Sprintf("instance %q just created; %s -> %d %s", op.I, reqs[j].URL, rp.Status, trunc(rp.Body))}, nil
					}
				}
				w.Stats.Probe("new-instance-checked-empty")
			}
			continue
		case "instdel":
			if x.Insts[op.I] == nil {
				continue
			}
			for nm, m := range x.Insts {
				if nm != op.I && len(m.Keys()) > 0 {
					deletedWhileNeighbourHadData = true
				}
			}
			req := proto.Req{Client: "c1", Kind: "rpc", RPC: []string{"repo", x.uuid(x.RepoRoot[0]), "delete", op.I}}
			mode := "barrier"
			if op.Mode == "nowait" {
				mode = "return"
			}
			res, err := w.Batch([]proto.Req{req}, mode)
			if err != nil {
				return nil, err
			}
			if res.Wedged {
				return nil, w.ClassifyWedge("instance deletion", res.Stacks)
			}
			if res.Resps[0].Status != 200 {
				w.Stats.Probe("instdel-refused")
				continue
			}
			if res.Parked > 0 {
				w.Stats.Probe("deletion-sweep-left-in-flight")
			}
			delete(x.Insts, op.I)
			delete(x.InstRepo, op.I)
			delete(x.InstType, op.I)
			w.Stats.Probe("instance-deleted")
			continue
		case "check":
			if err := w.Barrier(); err != nil {
				return nil, err
			}
			v, err := c.check(x)
			if err != nil || v != nil {
				if v != nil {
					v.Step = i
				}
				return v, err
			}
			continue
		}
		_, v, err := x.ApplyDAGOp(op)
		if err != nil {
			return nil, err
		}
		if v != nil {
			v.Step = i
			return v, nil
		}
	}
	if deletedWhileNeighbourHadData {
		w.Stats.Probe("deleted-while-neighbour-had-data")
	}
	w.Discard()
	return nil, nil
}

func (C06) check(x *KVExec) (*drv.Violation, error) {
	if v, err := x.CheckPointReads("C06"); v != nil || err != nil {
		if v != nil {
			v.Sig = "instance does not read back its own data: " + v.Sig
		}
		return v, err
	}
	// key listings per instance and version
	var names []string
	for n := range x.Insts {
		names = append(names, n)
	}
	sort.Strings(names)
	for _, n := range names {
		m := x.Insts[n]
		for _, vi := range x.D.Sorted() {
			rv := vi
			if !m.Versioned {
				rv = x.RepoRoot[0]
			}
			var want []string
			conflict := false
			for _, k := range m.Keys() {
				switch m.Resolve(x.D, rv, k).Kind {
				case ReadValue:
					want = append(want, k)
				case ReadConflict:
					conflict = true
				}
			}
			if conflict {
				continue
			}
			st, body, err := x.W.HTTP("GET", "/api/node/"+x.uuid(vi)+"/"+n+"/keys", nil)
			if err != nil {
				return nil, err
			}
			var got []string
			if st != 200 || json.Unmarshal(body, &got) != nil || strings.Join(got, ",") != strings.Join(want, ",") {
				return &drv.Violation{Prop: "C06", Oracle: "instance-keys", Sig: "instance key listing differs from its own model",
					Detail: fmt.Sprintf("instance %q version %d: keys -> %d %s, model %v", n, vi, st, trunc(body), want)}, nil
			}
		}
		// raw scan over the instance's key range
		res, err := x.W.Seq([]proto.Req{{Client: "c0", Kind: "store", Store: &proto.StoreOp{Op: "rawrange", Data: n, UUID: x.uuid(x.RepoRoot[0])}}})
		if err != nil {
			return nil, err
		}
		if res[0].Status != 200 {
			return &drv.Violation{Prop: "C06", Oracle: "raw-scan", Sig: "raw range query of an instance fails", Detail: res[0].Err}, nil
		}
		var iid string
		prev := ""
		for _, hk := range res[0].Keys {
			kb, _ := hex.DecodeString(hk)
			if len(kb) < 5 {
				return &drv.Violation{Prop: "C06", Oracle: "raw-scan", Sig: "raw scan returns a malformed key", Detail: hk}, nil
			}
			id := hex.EncodeToString(kb[1:5])
			if iid == "" {
				iid = id
			} else if id != iid {
				return &drv.Violation{Prop: "C06", Oracle: "raw-scan", Sig: "raw scan over one instance meets another instance's key",
					Detail: fmt.Sprintf("instance %q: keys with instance id %s and %s in one instance range", n, iid, id)}, nil
			}
			if prev != "" && hk <= prev {
				return &drv.Violation{Prop: "C06", Oracle: "raw-scan", Sig: "raw scan not ascending", Detail: fmt.Sprintf("%s after %s", hk, prev)}, nil
			}
			prev = hk
		}
		x.W.Stats.Probe("raw-scans")
	}
	return nil, nil
}

func (C06) NonTrivial(sc *drv.Scenario, st *drv.RunStats) bool {
	return st.Probes["deleted-while-neighbour-had-data"] > 0
}
