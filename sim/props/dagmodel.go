// Package props holds, per property, the workload generator, the reference
// model and the oracle.  Models are deliberately naive and share no code with
// DVID: they state what the property promises.
package props

import (
	"fmt"
	"sort"
)

// ---- version DAG model ----

type VNode struct {
	Idx      int
	UUID     string
	Parents  []int
	Children []int
	Locked   bool
	Branch   string
	Repo     int
	Note     string
}

type DAG struct {
	Nodes map[int]*VNode // keyed by scenario version index
}

func NewDAG() *DAG { return &DAG{Nodes: map[int]*VNode{}} }

// Sorted returns the version indices in ascending order.
func (d *DAG) Sorted() []int {
	var out []int
	for i := range d.Nodes {
		out = append(out, i)
	}
	sort.Ints(out)
	return out
}

// NextIdx returns the smallest unused version index.
func (d *DAG) NextIdx() int {
	m := -1
	for i := range d.Nodes {
		if i > m {
			m = i
		}
	}
	return m + 1
}

// VUUID is the caller-assigned UUID of the n-th version of a scenario.
func VUUID(idx int) string { return fmt.Sprintf("%04x%028x", 0xa000+idx, idx+1) }

func (d *DAG) Add(idx int, uuid string, parents []int, branch string, repo int) *VNode {
	n := &VNode{Idx: idx, UUID: uuid, Parents: append([]int(nil), parents...), Branch: branch, Repo: repo}
	d.Nodes[idx] = n
	for _, p := range parents {
		d.Nodes[p].Children = append(d.Nodes[p].Children, n.Idx)
	}
	return n
}

func (d *DAG) Has(i int) bool { return d.Nodes[i] != nil }

// AncestorsOrSelf returns the set of v and all its ancestors.
func (d *DAG) AncestorsOrSelf(v int) map[int]bool {
	seen := map[int]bool{}
	var walk func(int)
	walk = func(x int) {
		if seen[x] {
			return
		}
		seen[x] = true
		for _, p := range d.Nodes[x].Parents {
			walk(p)
		}
	}
	walk(v)
	return seen
}

// ProperAncestor reports whether a is a proper ancestor of b.
func (d *DAG) ProperAncestor(a, b int) bool {
	if a == b {
		return false
	}
	return d.AncestorsOrSelf(b)[a]
}

// DescendantsOrSelf returns v and all its descendants.
func (d *DAG) DescendantsOrSelf(v int) map[int]bool {
	seen := map[int]bool{}
	var walk func(int)
	walk = func(x int) {
		if seen[x] {
			return
		}
		seen[x] = true
		for _, c := range d.Nodes[x].Children {
			walk(c)
		}
	}
	walk(v)
	return seen
}

// CanNewVersion mirrors the API contract: parent committed, and no existing
// child continues the parent's branch.
func (d *DAG) CanNewVersion(parent int) bool {
	n := d.Nodes[parent]
	if !n.Locked {
		return false
	}
	for _, c := range n.Children {
		if d.Nodes[c].Branch == n.Branch {
			return false
		}
	}
	return true
}

func (d *DAG) BranchUsed(repo int, name string) bool {
	for _, n := range d.Nodes {
		if n.Repo == repo && n.Branch == name {
			return true
		}
	}
	return false
}

func (d *DAG) Open(repo int) []int {
	var out []int
	for _, i := range d.Sorted() {
		n := d.Nodes[i]
		if (repo < 0 || n.Repo == repo) && !n.Locked {
			out = append(out, n.Idx)
		}
	}
	return out
}

func (d *DAG) LockedNodes(repo int) []int {
	var out []int
	for _, i := range d.Sorted() {
		n := d.Nodes[i]
		if (repo < 0 || n.Repo == repo) && n.Locked {
			out = append(out, n.Idx)
		}
	}
	return out
}

// ---- versioned key-value model ----

type kvEntry struct {
	Val     string
	Deleted bool
}

// KVModel: entries[key][version] = what was last written or deleted there.
type KVModel struct {
	Versioned bool
	Entries   map[string]map[int]kvEntry
	Flat      map[string]string // unversioned instances: pinned to the repo root
}

func NewKVModel(versioned bool) *KVModel {
	return &KVModel{Versioned: versioned, Entries: map[string]map[int]kvEntry{}, Flat: map[string]string{}}
}

func (m *KVModel) Put(v int, k, val string) {
	if !m.Versioned {
		m.Flat[k] = val
		return
	}
	if m.Entries[k] == nil {
		m.Entries[k] = map[int]kvEntry{}
	}
	m.Entries[k][v] = kvEntry{Val: val}
}

func (m *KVModel) Delete(v int, k string) {
	if !m.Versioned {
		delete(m.Flat, k)
		return
	}
	if m.Entries[k] == nil {
		m.Entries[k] = map[int]kvEntry{}
	}
	m.Entries[k][v] = kvEntry{Deleted: true}
}

func (m *KVModel) Clone() *KVModel {
	c := NewKVModel(m.Versioned)
	for k, vs := range m.Entries {
		c.Entries[k] = map[int]kvEntry{}
		for v, e := range vs {
			c.Entries[k][v] = e
		}
	}
	for k, v := range m.Flat {
		c.Flat[k] = v
	}
	return c
}

type ReadKind int

const (
	ReadAbsent ReadKind = iota
	ReadValue
	ReadConflict // two or more unsuperseded live values: must not succeed with either
)

type ReadResult struct {
	Kind   ReadKind
	Val    string
	Cands  []string // for conflicts: the candidate values
	Reason string
}

// Resolve is the reference resolver of C01: among the entries of key k at
// ancestors-or-self of v, discard every entry that is a proper ancestor of
// another entry; of the remaining (maximal) entries take the live ones.
func (m *KVModel) Resolve(d *DAG, v int, k string) ReadResult {
	if !m.Versioned {
		if val, ok := m.Flat[k]; ok {
			return ReadResult{Kind: ReadValue, Val: val}
		}
		return ReadResult{Kind: ReadAbsent}
	}
	anc := d.AncestorsOrSelf(v)
	var at []int
	for u := range m.Entries[k] {
		if anc[u] {
			at = append(at, u)
		}
	}
	sort.Ints(at)
	var maximal []int
	for _, u := range at {
		superseded := false
		for _, w := range at {
			if w != u && d.ProperAncestor(u, w) {
				superseded = true
				break
			}
		}
		if !superseded {
			maximal = append(maximal, u)
		}
	}
	var live []int
	for _, u := range maximal {
		if !m.Entries[k][u].Deleted {
			live = append(live, u)
		}
	}
	switch len(live) {
	case 0:
		return ReadResult{Kind: ReadAbsent, Reason: fmt.Sprintf("entries@%v maximal@%v", at, maximal)}
	case 1:
		return ReadResult{Kind: ReadValue, Val: m.Entries[k][live[0]].Val, Reason: fmt.Sprintf("entries@%v maximal@%v live@%v", at, maximal, live)}
	default:
		var c []string
		for _, u := range live {
			c = append(c, m.Entries[k][u].Val)
		}
		return ReadResult{Kind: ReadConflict, Cands: c, Reason: fmt.Sprintf("entries@%v maximal@%v live@%v", at, maximal, live)}
	}
}

func (m *KVModel) Keys() []string {
	set := map[string]bool{}
	for k := range m.Entries {
		set[k] = true
	}
	for k := range m.Flat {
		set[k] = true
	}
	var out []string
	for k := range set {
		out = append(out, k)
	}
	sort.Strings(out)
	return out
}
