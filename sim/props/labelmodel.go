package props

// Reference model of a labelmap volume: per version a dense supervoxel array
// over a small block grid and a supervoxel -> body map.  Deliberately naive.

import (
	"encoding/binary"
	"fmt"
	"sort"
)

type LabelGeom struct {
	B      int    // block size (cubic)
	G      [3]int // blocks per axis
	Origin [3]int // block coordinate of the grid's first block (may be negative)
}

func (g LabelGeom) Dims() (nx, ny, nz int) { return g.G[0] * g.B, g.G[1] * g.B, g.G[2] * g.B }
func (g LabelGeom) NVox() int              { nx, ny, nz := g.Dims(); return nx * ny * nz }

// Offset returns the voxel coordinate of the grid's first voxel.
func (g LabelGeom) Offset() [3]int {
	return [3]int{g.Origin[0] * g.B, g.Origin[1] * g.B, g.Origin[2] * g.B}
}

func (g LabelGeom) idx(x, y, z int) int {
	nx, ny, _ := g.Dims()
	return (z*ny+y)*nx + x
}

// LabelVersion is the state of one version.
type LabelVersion struct {
	Vox     []uint64          // supervoxel id per voxel (0 = background)
	Map     map[uint64]uint64 // supervoxel -> body, only non-identity entries
	Written []bool            // per block: has this lineage ever written the block
}

func (lv *LabelVersion) Body(sv uint64) uint64 {
	if sv == 0 {
		return 0
	}
	if b, ok := lv.Map[sv]; ok {
		return b
	}
	return sv
}

func (lv *LabelVersion) Clone() *LabelVersion {
	c := &LabelVersion{Vox: append([]uint64(nil), lv.Vox...), Map: map[uint64]uint64{}, Written: append([]bool(nil), lv.Written...)}
	for k, v := range lv.Map {
		c.Map[k] = v
	}
	return c
}

type LabelModel struct {
	Geom     LabelGeom
	Versions map[int]*LabelVersion
	// MaxEver: the largest label ever present or handed out in this volume at any version
	MaxEver uint64
	// Reserved: the largest id the client side has picked for a supervoxel, whether or not a voxel of it
	// ever reached the server (a generated layout may leave a chosen label without voxels)
	Reserved uint64
}

func NewLabelModel(g LabelGeom) *LabelModel {
	return &LabelModel{Geom: g, Versions: map[int]*LabelVersion{}}
}

func (m *LabelModel) NewRoot(v int) {
	nb := m.Geom.G[0] * m.Geom.G[1] * m.Geom.G[2]
	m.Versions[v] = &LabelVersion{Vox: make([]uint64, m.Geom.NVox()), Map: map[uint64]uint64{}, Written: make([]bool, nb)}
}

func (m *LabelModel) NewChild(parent, child int) {
	if p := m.Versions[parent]; p != nil {
		m.Versions[child] = p.Clone()
	}
}

func (m *LabelModel) note(l uint64) {
	if l > m.MaxEver {
		m.MaxEver = l
	}
	m.reserve(l)
}

func (m *LabelModel) reserve(l uint64) {
	if l > m.Reserved {
		m.Reserved = l
	}
}

// BodySVs returns body -> sorted supervoxels with at least one voxel.
func (lv *LabelVersion) BodySVs() map[uint64][]uint64 {
	seen := map[uint64]bool{}
	for _, sv := range lv.Vox {
		if sv != 0 {
			seen[sv] = true
		}
	}
	out := map[uint64][]uint64{}
	for sv := range seen {
		b := lv.Body(sv)
		out[b] = append(out[b], sv)
	}
	for b := range out {
		s := out[b]
		sort.Slice(s, func(i, j int) bool { return s[i] < s[j] })
	}
	return out
}

func (lv *LabelVersion) SVSizes() map[uint64]uint64 {
	out := map[uint64]uint64{}
	for _, sv := range lv.Vox {
		if sv != 0 {
			out[sv]++
		}
	}
	return out
}

// Mapped returns the body-label array.
func (lv *LabelVersion) Mapped() []uint64 {
	out := make([]uint64, len(lv.Vox))
	for i, sv := range lv.Vox {
		out[i] = lv.Body(sv)
	}
	return out
}

// SetBox writes supervoxel data (ZYX order, X fastest) into the box given in grid-local block coordinates.
func (m *LabelModel) SetBox(v int, b0, nb [3]int, data []uint64) {
	lv := m.Versions[v]
	g := m.Geom
	B := g.B
	sx, sy, sz := nb[0]*B, nb[1]*B, nb[2]*B
	i := 0
	for z := 0; z < sz; z++ {
		for y := 0; y < sy; y++ {
			for x := 0; x < sx; x++ {
				lv.Vox[g.idx(b0[0]*B+x, b0[1]*B+y, b0[2]*B+z)] = data[i]
				m.note(data[i])
				i++
			}
		}
	}
	for bz := 0; bz < nb[2]; bz++ {
		for by := 0; by < nb[1]; by++ {
			for bx := 0; bx < nb[0]; bx++ {
				lv.Written[((b0[2]+bz)*g.G[1]+(b0[1]+by))*g.G[0]+b0[0]+bx] = true
			}
		}
	}
}

// ---- wire formats (parent-side, independent of DVID code) ----

func u64sToBytes(v []uint64) []byte {
	b := make([]byte, 8*len(v))
	for i, x := range v {
		binary.LittleEndian.PutUint64(b[8*i:], x)
	}
	return b
}

func bytesToU64s(b []byte) []uint64 {
	out := make([]uint64, len(b)/8)
	for i := range out {
		out[i] = binary.LittleEndian.Uint64(b[8*i:])
	}
	return out
}

type Run struct{ X, Y, Z, N int }

// EncodeRLEs builds the "legacy RLEs" sparse-volume payload.
func EncodeRLEs(runs []Run) []byte {
	b := make([]byte, 12+16*len(runs))
	b[0] = 0
	b[1] = 3
	b[2] = 0
	b[3] = 0
	binary.LittleEndian.PutUint32(b[4:], 0)
	binary.LittleEndian.PutUint32(b[8:], uint32(len(runs)))
	for i, r := range runs {
		o := 12 + 16*i
		binary.LittleEndian.PutUint32(b[o:], uint32(int32(r.X)))
		binary.LittleEndian.PutUint32(b[o+4:], uint32(int32(r.Y)))
		binary.LittleEndian.PutUint32(b[o+8:], uint32(int32(r.Z)))
		binary.LittleEndian.PutUint32(b[o+12:], uint32(int32(r.N)))
	}
	return b
}

// DecodeRuns decodes streaming RLEs (4 x int32 per run); hdr=12 skips a legacy header.
func DecodeRuns(b []byte, hdr int) ([]Run, error) {
	if len(b) < hdr || (len(b)-hdr)%16 != 0 {
		return nil, fmt.Errorf("RLE payload of %d bytes is not header(%d) + n*16", len(b), hdr)
	}
	var out []Run
	for o := hdr; o < len(b); o += 16 {
		out = append(out, Run{
			int(int32(binary.LittleEndian.Uint32(b[o:]))),
			int(int32(binary.LittleEndian.Uint32(b[o+4:]))),
			int(int32(binary.LittleEndian.Uint32(b[o+8:]))),
			int(int32(binary.LittleEndian.Uint32(b[o+12:])))})
	}
	return out, nil
}

// VoxelSetOfBody returns the set of global voxel coordinates of a body (or supervoxel).
func (m *LabelModel) VoxelSet(v int, label uint64, supervoxel bool) map[[3]int]bool {
	lv := m.Versions[v]
	g := m.Geom
	off := g.Offset()
	nx, ny, nz := g.Dims()
	out := map[[3]int]bool{}
	for z := 0; z < nz; z++ {
		for y := 0; y < ny; y++ {
			for x := 0; x < nx; x++ {
				sv := lv.Vox[g.idx(x, y, z)]
				if sv == 0 {
					continue
				}
				if (supervoxel && sv == label) || (!supervoxel && lv.Body(sv) == label) {
					out[[3]int{x + off[0], y + off[1], z + off[2]}] = true
				}
			}
		}
	}
	return out
}

// RunsOf converts a voxel set into X-runs (sorted z,y,x).
func RunsOf(set map[[3]int]bool) []Run {
	var pts [][3]int
	for p := range set {
		pts = append(pts, p)
	}
	sort.Slice(pts, func(i, j int) bool {
		a, b := pts[i], pts[j]
		if a[2] != b[2] {
			return a[2] < b[2]
		}
		if a[1] != b[1] {
			return a[1] < b[1]
		}
		return a[0] < b[0]
	})
	var runs []Run
	for _, p := range pts {
		if n := len(runs); n > 0 && runs[n-1].Z == p[2] && runs[n-1].Y == p[1] && runs[n-1].X+runs[n-1].N == p[0] {
			runs[n-1].N++
		} else {
			runs = append(runs, Run{p[0], p[1], p[2], 1})
		}
	}
	return runs
}

func floorDiv(a, b int) int {
	q := a / b
	if a%b != 0 && (a < 0) != (b < 0) {
		q--
	}
	return q
}
