package props

import (
	"encoding/json"
	"fmt"
	"math/rand/v2"
	"time"

	"verif/sim/drv"
	"verif/sim/proto"
)

// C14 — lower-resolution label levels always match the documented down-sampling.
type C14 struct{ drv.CheckBase }

func init() { drv.Register(&C14{}) }

func (C14) ID() string    { return "C14" }
func (C14) Level() string { return "exploration" }
func (C14) Rule() string {
	return "each run = one seeded label history (C08 generator: ingests and mutating writes of random block boxes - single octants of a parent block up to all eight, negative block coordinates -, " +
		"supervoxel splits, merges, cleaves, commits, new versions and branches, restarts) on a volume created with MaxDownresLevel 1-3. Every mutation is issued WITHOUT settling; while its background work is " +
		"still parked under the scheduler the instance's idle flags (Updating / AnyScaleUpdating, what BlockOnUpdating polls) are probed at scheduler-chosen instants, and at every instant at which the volume " +
		"reports idle with no request in flight the whole pyramid is read (parked goroutines stay parked) and must already be consistent; after settling it is checked again on the touched version and its parent. " +
		"Consistency oracle: every voxel at level n+1 (raw?scale=n+1&supervoxels=true) equals the reference vote over the 2x2x2 voxels of level n as read back from the server " +
		"(most frequent non-zero label, ties to the smaller label, all zero gives zero), for all levels up to the maximum. " +
		"non-trivial = at least one mutating write or split after the first ingest; distinct = distinct (steps, schedule, faults) hash"
}
func (C14) Assumptions() []string { return commonAssumptions }
func (C14) Budget(tier string) (int, time.Duration) {
	return budget(tier, 320, 12000, 100*time.Second, 30*time.Minute)
}

func (C14) Generate(r *rand.Rand, tier string, idx int) *drv.Scenario {
	maxDown := 1 + r.IntN(3)
	seed := func() int64 { return int64(r.Uint64N(1 << 40)) }
	steps := GenLabelHistory(r, 6+r.IntN(14), maxDown, 0.03, func(r *rand.Rand, open []int) *drv.Op {
		if r.IntN(2) == 0 {
			return &drv.Op{Op: "paringest", V: pick(r, open), N: seed()}
		}
		return &drv.Op{Op: "bodysplit", V: pick(r, open), N: seed()}
	})
	k := baseKnobs(r)
	k.AllowSplit = true
	return &drv.Scenario{Family: fmt.Sprintf("maxlevel%d", maxDown), Knobs: k, Steps: steps, Fixed: 2}
}

func readLevel(w *drv.World, x *LabelExec, v, k int) ([]uint64, [3]int, [3]int, error) {
	g := x.M.Geom
	nx, ny, nz := g.Dims()
	off := g.Offset()
	f := 1 << uint(k)
	size := [3]int{nx / f, ny / f, nz / f}
	o := [3]int{floorDiv(off[0], f), floorDiv(off[1], f), floorDiv(off[2], f)}
	for a := 0; a < 3; a++ {
		if size[a] < 1 {
			size[a] = 1
		}
	}
	url := fmt.Sprintf("%s/raw/0_1_2/%d_%d_%d/%d_%d_%d?supervoxels=true&scale=%d", x.base(v), size[0], size[1], size[2], o[0], o[1], o[2], k)
	st, body, err := w.HTTP("GET", url, nil)
	if err != nil {
		return nil, size, o, err
	}
	if st != 200 || len(body) != size[0]*size[1]*size[2]*8 {
		return nil, size, o, fmt.Errorf("level %d read failed: %d %s", k, st, trunc(body))
	}
	return bytesToU64s(body), size, o, nil
}

// checkPyramid compares each level with the vote over the level beneath it.
func checkPyramid(w *drv.World, x *LabelExec, v int, when string) (*drv.Violation, error) {
	if x.M == nil || !x.D.Has(v) {
		return nil, nil
	}
	lo, sLo, oLo, err := readLevel(w, x, v, 0)
	if err != nil {
		return &drv.Violation{Prop: "C14", Oracle: "pyramid-read", Sig: "level read fails", Detail: err.Error()}, nil
	}
	// level 0 must be the model's voxels (otherwise the comparison below is about something else)
	for k := 0; k < x.MaxDown; k++ {
		hi, sHi, oHi, err := readLevel(w, x, v, k+1)
		if err != nil {
			return &drv.Violation{Prop: "C14", Oracle: "pyramid-read", Sig: "level read fails", Detail: err.Error()}, nil
		}
		at := func(xx, yy, zz int) uint64 { // level-k voxel by level-k global coordinate
			lx, ly, lz := xx-oLo[0], yy-oLo[1], zz-oLo[2]
			if lx < 0 || ly < 0 || lz < 0 || lx >= sLo[0] || ly >= sLo[1] || lz >= sLo[2] {
				return 0
			}
			return lo[(lz*sLo[1]+ly)*sLo[0]+lx]
		}
		for z := 0; z < sHi[2]; z++ {
			for y := 0; y < sHi[1]; y++ {
				for xx := 0; xx < sHi[0]; xx++ {
					gx, gy, gz := xx+oHi[0], y+oHi[1], z+oHi[2]
					counts := map[uint64]int{}
					for dz := 0; dz < 2; dz++ {
						for dy := 0; dy < 2; dy++ {
							for dx := 0; dx < 2; dx++ {
								if l := at(2*gx+dx, 2*gy+dy, 2*gz+dz); l != 0 {
									counts[l]++
								}
							}
						}
					}
					var want uint64
					best := 0
					for l, n := range counts {
						if n > best || (n == best && l < want) {
							best, want = n, l
						}
					}
					got := hi[(z*sHi[1]+y)*sHi[0]+xx]
					if got != want {
						vox := []uint64{}
						for dz := 0; dz < 2; dz++ {
							for dy := 0; dy < 2; dy++ {
								for dx := 0; dx < 2; dx++ {
									vox = append(vox, at(2*gx+dx, 2*gy+dy, 2*gz+dz))
								}
							}
						}
						return &drv.Violation{Prop: "C14", Oracle: "level-vs-vote", Sig: fmt.Sprintf("level %d differs from the vote over level %d (%s)", k+1, k, when),
							Detail: fmt.Sprintf("version %d(%s) %s: level-%d voxel (%d,%d,%d) is %d; the 2x2x2 voxels of level %d beneath it are %v, vote = %d",
								v, x.uuid(v)[:4], when, k+1, gx, gy, gz, got, k, vox, want)}, nil
					}
				}
			}
		}
		lo, sLo, oLo = hi, sHi, oHi
	}
	w.Stats.Probe("pyramids-checked")
	return nil, nil
}

func (C14) Execute(sc *drv.Scenario, w *drv.World) (*drv.Violation, error) {
	if _, err := w.Start(); err != nil {
		return nil, err
	}
	x := NewLabelExec(w, "C14")
	x.NoSettle = true
	for i, op := range sc.Steps {
		w.CurStep = i
		if op.Op == "lcheck" || op.Op == "lcheckall" {
			for _, vi := range x.D.Sorted() {
				if v, err := checkPyramid(w, x, vi, "settled"); v != nil || err != nil {
					if v != nil {
						v.Step = i
					}
					return v, err
				}
				if op.Op == "lcheck" {
					break
				}
			}
			continue
		}
		var v *drv.Violation
		var err error
		switch op.Op {
		case "paringest":
			v, err = parIngest(w, x, op)
		case "bodysplit":
			v, err = bodySplit(w, x, op)
		default:
			_, v, err = x.Apply(op)
		}
		if err != nil {
			return nil, err
		}
		if v != nil {
			if v.Oracle == "write-ack" {
				v = nil // content refusals are C08's concern
			} else {
				v.Step = i
				return v, nil
			}
		}
		switch op.Op {
		case "ingest", "mutate", "splitsv", "lmerge", "cleave", "renumber", "paringest", "bodysplit":
		default:
			continue
		}
		if x.M == nil || !x.D.Has(op.V) {
			continue
		}
		// ---- idle clause: probe the idle flags while background work is parked ----
		for it := 0; it < 60; it++ {
			res, err := w.Batch([]proto.Req{{Client: "prober", Kind: "probe", URL: "updating/" + x.uuid(op.V) + "/" + x.Inst}}, "return")
			if err != nil {
				return nil, err
			}
			if res.Wedged {
				return nil, w.ClassifyWedge("idle probe after "+op.Op, res.Stacks)
			}
			var fl map[string]bool
			json.Unmarshal(res.Resps[0].Body, &fl)
			idle := !fl["updating"] && !fl["anyscale"]
			if idle {
				if res.Parked > 0 {
					w.Stats.Probe("idle-reported-with-background-work-parked")
				}
				if v, err := checkPyramid(w, x, op.V, "volume reports idle after "+op.Op); v != nil || err != nil {
					if v != nil {
						v.Step = i
						v.Detail += fmt.Sprintf("\nidle flags %v, %d goroutines still parked", fl, res.Parked)
					}
					return v, err
				}
			} else {
				w.Stats.Probe("busy-reported")
			}
			if res.Parked == 0 {
				break
			}
		}
		if err := w.Barrier(); err != nil {
			return nil, err
		}
		if v, err := checkPyramid(w, x, op.V, "settled after "+op.Op); v != nil || err != nil {
			if v != nil {
				v.Step = i
			}
			return v, err
		}
		if ps := x.D.Nodes[op.V].Parents; len(ps) > 0 && i%2 == 0 {
			if v, err := checkPyramid(w, x, ps[0], "parent version, settled"); v != nil || err != nil {
				if v != nil {
					v.Step = i
				}
				return v, err
			}
		}
	}
	w.Discard()
	return nil, nil
}

func (C14) NonTrivial(sc *drv.Scenario, st *drv.RunStats) bool {
	return st.Probes["label-mutate"]+st.Probes["label-splitsv"] > 0
}

// parIngest: 2-3 concurrent ingests of distinct blank blocks (typically octants of one
// lower-resolution parent), interleaved by the scheduler.
func parIngest(w *drv.World, x *LabelExec, op drv.Op) (*drv.Violation, error) {
	if x.M == nil || !x.D.Has(op.V) || x.D.Nodes[op.V].Locked {
		return nil, nil
	}
	r := drv.NewRNG(uint64(op.N) + 3)
	lv := x.M.Versions[op.V]
	g := x.M.Geom
	var blank []int
	for i, wr := range lv.Written {
		if !wr {
			blank = append(blank, i)
		}
	}
	if len(blank) < 2 {
		return nil, nil
	}
	r.Shuffle(len(blank), func(i, j int) { blank[i], blank[j] = blank[j], blank[i] })
	n := 2 + r.IntN(2)
	if n > len(blank) {
		n = len(blank)
	}
	var reqs []proto.Req
	type wr struct {
		b0   [3]int
		data []uint64
	}
	var ws []wr
	for i := 0; i < n; i++ {
		bi := blank[i]
		b0 := [3]int{bi % g.G[0], (bi / g.G[0]) % g.G[1], bi / (g.G[0] * g.G[1])}
		l := x.newSV(r)
		x.M.reserve(l)
		data := genLayout(r, [3]int{g.B, g.B, g.B}, []uint64{l, l + 1}, r.IntN(3) == 0)
		x.M.reserve(l + 1)
		reqs = append(reqs, proto.Req{Client: fmt.Sprintf("c%d", i+1), Kind: "http", Method: "POST", URL: x.boxURL(op.V, b0, [3]int{1, 1, 1}), Body: u64sToBytes(data)})
		ws = append(ws, wr{b0, data})
	}
	res, err := w.Batch(reqs, "return")
	if err != nil {
		return nil, err
	}
	if res.Wedged {
		return nil, w.ClassifyWedge("concurrent ingests\n"+descReqs(reqs), res.Stacks)
	}
	for i, rp := range res.Resps {
		if rp.Status == 200 {
			x.M.SetBox(op.V, ws[i].b0, [3]int{1, 1, 1}, ws[i].data)
		}
	}
	w.Stats.Probe("concurrent-ingests")
	return nil, nil
}

// bodySplit: POST split/<label> (enabled by configuration) with a sparse volume inside one body;
// the model is re-synchronised from the server afterwards (the pyramid oracle needs no model).
func bodySplit(w *drv.World, x *LabelExec, op drv.Op) (*drv.Violation, error) {
	if x.M == nil || !x.D.Has(op.V) || x.D.Nodes[op.V].Locked {
		return nil, nil
	}
	r := drv.NewRNG(uint64(op.N) + 9)
	lv := x.M.Versions[op.V]
	bodies := sortedBodies(lv)
	if len(bodies) == 0 {
		return nil, nil
	}
	b := pick(r, bodies)
	set := x.M.VoxelSet(op.V, b, false)
	if len(set) < 4 {
		return nil, nil
	}
	split := map[[3]int]bool{}
	for p := range set {
		if (p[0]+2*p[1]+3*p[2]+int(op.N))%3 != 0 {
			split[p] = true
		}
	}
	if len(split) == 0 || len(split) == len(set) {
		return nil, nil
	}
	st, body, err := x.post(fmt.Sprintf("%s/split/%d", x.base(op.V), b), EncodeRLEs(RunsOf(split)))
	if err != nil {
		return nil, err
	}
	if st != 200 {
		w.Stats.Probe("body-split-refused")
		_ = body
		return nil, nil
	}
	w.Stats.Probe("body-split")
	resp := parseMutResp(body)
	if nl := resp["label"]; nl != 0 {
		x.M.note(nl)
	}
	// settle, then adopt the server's voxels and mapping
	if err := w.Barrier(); err != nil {
		return nil, err
	}
	if err := x.Resync(); err != nil {
		return nil, err
	}
	for sv := range lv.SVSizes() {
		x.M.note(sv)
	}
	return nil, nil
}
