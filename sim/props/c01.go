package props

import (
	"math/rand/v2"
	"time"

	"verif/sim/drv"
)

// C01 — versioned reads resolve to the nearest ancestor write in the version DAG.
type C01 struct{ drv.CheckBase }

func init() { drv.Register(&C01{}) }

func (C01) ID() string    { return "C01" }
func (C01) Level() string { return "exploration" }
func (C01) Rule() string {
	return "each run = one seeded history of put/delete/commit/new-version/branch/merge(2-4 parents) requests over <=12 versions and 3-5 keys " +
		"(plus an unversioned and a second-repo distractor, optional clean/kill restarts, randomised map-iteration seed), executed against the real server; " +
		"after the history (and at random points) every (key, version) is read by GET and HEAD and compared with the reference resolver " +
		"(maximal entries among ancestors-or-self; none live=404, one=value, >=2 = must not succeed). " +
		"non-trivial = the DAG has a merge or a branch and at least one delete; distinct = distinct hash of (steps, decision sequence, fired faults)"
}
func (C01) Assumptions() []string { return commonAssumptions }
func (C01) Budget(tier string) (int, time.Duration) {
	return budget(tier, 400, 40000, 70*time.Second, 25*time.Minute)
}

func (C01) Generate(r *rand.Rand, tier string, idx int) *drv.Scenario {
	fam := []string{"chain", "branchy", "mergey", "mergey"}[r.IntN(4)]
	o := KVGenOpts{
		MaxVersions: 4 + r.IntN(9),
		Keys:        []string{"a", "b", "c", "ab", "k5"}[:3+r.IntN(3)],
		Steps:       12 + r.IntN(29),
		PRestart:    0.02,
		PCheck:      0.03,
		Unversioned: r.IntN(3) == 0,
		SecondRepo:  r.IntN(4) == 0,
		FinalCheck:  true,
	}
	switch fam {
	case "chain":
		o.MergeBias = -8
	case "mergey":
		o.MergeBias = 14
		if o.MaxVersions < 7 {
			o.MaxVersions = 7
		}
	}
	g := GenKVHistory(r, o)
	return &drv.Scenario{Family: fam, Knobs: baseKnobs(r), Steps: g.Steps, Fixed: g.Fixed}
}

func (C01) Execute(sc *drv.Scenario, w *drv.World) (*drv.Violation, error) {
	if _, err := w.Start(); err != nil {
		return nil, err
	}
	x := NewKVExec(w)
	for i, op := range sc.Steps {
		w.CurStep = i
		handled, v, err := x.ApplyDAGOp(op)
		if err != nil {
			return nil, err
		}
		if v != nil {
			v.Step = i
			return v, nil
		}
		if handled {
			continue
		}
		if op.Op == "check" {
			v, err := x.CheckPointReads("C01")
			if err != nil {
				return nil, err
			}
			if v != nil {
				v.Step = i
				return v, nil
			}
		}
	}
	w.Discard()
	return nil, nil
}

func (C01) NonTrivial(sc *drv.Scenario, st *drv.RunStats) bool {
	structural, del := false, false
	for _, op := range sc.Steps {
		if op.Op == "merge" || op.Op == "branch" {
			structural = true
		}
		if op.Op == "del" {
			del = true
		}
	}
	return structural && del
}
