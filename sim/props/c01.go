package props

import (
	"fmt"
	"math/rand/v2"
	"time"

	"verif/sim/drv"
)

// C01 — versioned reads resolve to the nearest ancestor write in the version DAG.
type C01 struct{ drv.CheckBase }

func init() { drv.Register(&C01{}) }

func (C01) ID() string    { return "C01" }
func (C01) Level() string { return "exploration" }
func (C01) Rule() string {
	return "each run = one seeded history of put/delete/commit/new-version/branch/merge(2-4 parents) requests over <=12 versions and 3-5 keys " +
		"(plus an unversioned and a second-repo distractor, optional clean/kill restarts, randomised map-iteration seed), executed against the real server; " +
		"after the history (and at random points) every (key, version) is read by GET and HEAD and compared with the reference resolver " +
		"(maximal entries among ancestors-or-self; none live=404, one=value, >=2 = must not succeed). " +
		"a fifth of the runs open with a stacked lineage (one key written or deleted at 3-5 successive versions, side branches off inner nodes, merge of all tips in random parent order); " +
		"non-trivial = the DAG has a merge or a branch and at least one delete; distinct = distinct hash of (steps, decision sequence, fired faults)"
}
func (C01) Assumptions() []string { return commonAssumptions }
func (C01) Budget(tier string) (int, time.Duration) {
	return budget(tier, 400, 40000, 70*time.Second, 25*time.Minute)
}

func (C01) Generate(r *rand.Rand, tier string, idx int) *drv.Scenario {
	fam := []string{"chain", "branchy", "mergey", "mergey", "stacked"}[r.IntN(5)]
	o := KVGenOpts{
		MaxVersions: 4 + r.IntN(9),
		Keys:        []string{"a", "b", "c", "ab", "k5"}[:3+r.IntN(3)],
		Steps:       12 + r.IntN(29),
		PRestart:    0.02,
		PCheck:      0.03,
		Unversioned: r.IntN(3) == 0,
		SecondRepo:  r.IntN(4) == 0,
		FinalCheck:  true,
	}
	switch fam {
	case "chain":
		o.MergeBias = -8
	case "mergey":
		o.MergeBias = 14
		if o.MaxVersions < 7 {
			o.MaxVersions = 7
		}
	}
	if fam == "stacked" {
		o.MergeBias = 6
		o.MaxVersions = 10 + r.IntN(5)
		o.Prelude = stackedPrelude
	}
	g := GenKVHistory(r, o)
	return &drv.Scenario{Family: fam, Knobs: baseKnobs(r), Steps: g.Steps, Fixed: g.Fixed}
}

func (C01) Execute(sc *drv.Scenario, w *drv.World) (*drv.Violation, error) {
	if _, err := w.Start(); err != nil {
		return nil, err
	}
	x := NewKVExec(w)
	for i, op := range sc.Steps {
		w.CurStep = i
		handled, v, err := x.ApplyDAGOp(op)
		if err != nil {
			return nil, err
		}
		if v != nil {
			v.Step = i
			return v, nil
		}
		if handled {
			continue
		}
		if op.Op == "check" {
			v, err := x.CheckPointReads("C01")
			if err != nil {
				return nil, err
			}
			if v != nil {
				v.Step = i
				return v, nil
			}
		}
	}
	w.Discard()
	return nil, nil
}

func (C01) NonTrivial(sc *drv.Scenario, st *drv.RunStats) bool {
	structural, del := false, false
	for _, op := range sc.Steps {
		if op.Op == "merge" || op.Op == "branch" {
			structural = true
		}
		if op.Op == "del" {
			del = true
		}
	}
	return structural && del
}

// stackedPrelude: one lineage that writes or deletes the same key at 3-5 successive versions,
// 1-2 side branches hanging off inner nodes of that lineage that never touch the key, and a
// merge of the lineage's tip with the side tips in a random parent order (supersession must be
// propagated through every stacked entry, not only the nearest one); the random history follows.
func stackedPrelude(g *KVGen) {
	r := g.R
	k := g.O.Keys[0]
	inst := g.O.Inst
	emitWrite := func(v int, allowDel bool) {
		if allowDel && r.IntN(3) == 0 {
			g.Steps = append(g.Steps, drv.Op{Op: "del", V: v, I: inst, K: k})
		} else {
			g.Steps = append(g.Steps, drv.Op{Op: "put", V: v, I: inst, K: k, Val: g.NewVal()})
		}
	}
	commit := func(v int) {
		g.D.Nodes[v].Locked = true
		g.Steps = append(g.Steps, drv.Op{Op: "commit", V: v})
	}
	chain := []int{0}
	emitWrite(0, false)
	commit(0)
	L := 2 + r.IntN(3)
	for i := 0; i < L; i++ {
		p := chain[len(chain)-1]
		idx := g.D.NextIdx()
		g.D.Add(idx, VUUID(idx), []int{p}, g.D.Nodes[p].Branch, 0)
		g.Steps = append(g.Steps, drv.Op{Op: "newver", V: p, N: int64(idx)})
		if i == L-1 || r.IntN(5) != 0 {
			emitWrite(idx, true)
		}
		commit(idx)
		chain = append(chain, idx)
	}
	ps := []int{chain[len(chain)-1]}
	for s := 0; s < 1+r.IntN(2); s++ {
		p := chain[r.IntN(len(chain)-1)]
		g.brCtr++
		idx := g.D.NextIdx()
		name := fmt.Sprintf("br%d", g.brCtr)
		g.D.Add(idx, VUUID(idx), []int{p}, name, 0)
		g.Steps = append(g.Steps, drv.Op{Op: "branch", V: p, Br: name, N: int64(idx)})
		if len(g.O.Keys) > 1 && r.IntN(2) == 0 {
			g.Steps = append(g.Steps, drv.Op{Op: "put", V: idx, I: inst, K: g.O.Keys[1], Val: g.NewVal()})
		}
		commit(idx)
		ps = append(ps, idx)
	}
	r.Shuffle(len(ps), func(i, j int) { ps[i], ps[j] = ps[j], ps[i] })
	idx := g.D.NextIdx()
	g.D.Add(idx, "", ps, "", 0)
	g.Steps = append(g.Steps, drv.Op{Op: "merge", Ps: ps, N: int64(idx)})
	g.Steps = append(g.Steps, drv.Op{Op: "check"})
}
