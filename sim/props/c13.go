package props

import (
	"encoding/json"
	"fmt"
	"math/rand/v2"
	"sort"
	"strings"
	"time"

	"verif/sim/drv"
	"verif/sim/proto"
)

// C13 — annotation indexes are views of one element set, synced with labels.
type C13 struct{ drv.CheckBase }

func init() { drv.Register(&C13{}) }

func (C13) ID() string    { return "C13" }
func (C13) Level() string { return "exploration" }
func (C13) Rule() string {
	return "each run = one seeded history on a labelmap volume 'seg', an annotation instance 'ann' synced to it, a labelsz instance 'lsz' synced to 'ann' and a ROI of the same block size: " +
		"POST elements (new positions, overwriting an existing position with other kind/tags/properties/relationships, partner elements updated in the same request or not), DELETE element, " +
		"move (within a block, across blocks, onto another body, out of the volume, negative coordinates, block borders), POST blocks + reload (in-memory and low-memory) + labelsz reload, " +
		"label ingests, mutating voxel writes, merges, cleaves, supervoxel splits, body splits, renumbers, commits, new versions, branches and clean restarts; every request runs to completion under the seeded scheduler, " +
		"which interleaves the sync goroutines (labelmap -> annotation -> labelsz); a 'concurrent-label-ops' family issues 2-3 commuting cleaves/merges of one annotated body together; in the 'nosettle' family the next request is issued while sync events are still queued. " +
		"Oracle, after the system has settled, on the touched version (and every version at the end): all-elements, blocks/<size>/<offset>, elements/<size>/<offset> (random boxes), roi/<name>, tag/<t> (with and without relationships), " +
		"label/<l> for every body ever seen (with and without relationships) and labelsz count, counts, top, threshold for every index type must equal the projections of the model's element set, " +
		"where the body of an element is what GET seg/labels returns for its position; elements are compared as sets with position, kind, tags, properties and relationships; " +
		"relationships of a partner must follow a move/delete when the two elements reference each other (one-directional references are left unconstrained). " +
		"non-trivial = at least 3 element edits and one label operation; distinct = distinct (steps, schedule) hash"
}
func (C13) Assumptions() []string { return commonAssumptions }
func (C13) Budget(tier string) (int, time.Duration) {
	return budget(tier, 120, 8000, 100*time.Second, 30*time.Minute)
}

var annTags = []string{"t0", "t1", "t2", "syn-x"}
var annKinds = []string{"PostSyn", "PreSyn", "Gap", "Note"}
var annRelKinds = []string{"PostSynTo", "PreSynTo", "ConvergentTo", "GroupedWith"}
var lszTypes = []string{"PostSyn", "PreSyn", "Gap", "Note", "AllSyn"}

func (C13) Generate(r *rand.Rand, tier string, idx int) *drv.Scenario {
	B := 16
	if r.IntN(6) == 0 {
		B = 32
	}
	var G [3]int
	for {
		G = [3]int{1 + r.IntN(3), 1 + r.IntN(2), 1 + r.IntN(2)}
		if G[0]*G[1]*G[2]*B*B*B <= 40000 {
			break
		}
	}
	origin := []int{0, 0, 0}
	if r.IntN(3) == 0 {
		origin = []int{-r.IntN(2), -r.IntN(2), -r.IntN(2)}
	}
	seed := func() int64 { return int64(r.Uint64N(1 << 40)) }
	steps := []drv.Op{{Op: "lrepo", P: [][]int{{B}, {G[0], G[1], G[2]}, origin}}, {Op: "annsetup", N: seed()}}
	d := NewDAG()
	d.Add(0, VUUID(0), nil, "", 0)
	brc := 0
	family := "settled"
	if r.IntN(3) == 0 {
		family = "nosettle"
	}
	if r.IntN(3) > 0 { // most histories annotate an existing segmentation; the others ingest under existing elements
		steps = append(steps, drv.Op{Op: "ingest", V: 0, N: seed()})
	}
	if r.IntN(5) == 0 {
		// family: annotated bodies of several supervoxels, then batches of concurrent cleaves / merges of one body
		family = "concurrent-label-ops"
		steps = steps[:2]
		steps = append(steps, drv.Op{Op: "ingest", V: 0, N: seed()}, drv.Op{Op: "ingest", V: 0, N: seed()}, drv.Op{Op: "ingest", V: 0, N: seed()})
		for i := 0; i < 3; i++ {
			steps = append(steps, drv.Op{Op: "lmerge", V: 0, N: seed()})
		}
		for i := 0; i < 4; i++ {
			steps = append(steps, drv.Op{Op: "elpost", V: 0, N: seed()})
		}
		for i := 0; i < 4+r.IntN(4); i++ {
			steps = append(steps, drv.Op{Op: "parlabel", V: 0, N: seed()})
			if r.IntN(2) == 0 {
				steps = append(steps, drv.Op{Op: pick(r, []string{"elpost", "elmove", "lmerge"}), V: 0, N: seed()})
			}
		}
		steps = append(steps, drv.Op{Op: "acheckall"})
		k := baseKnobs(r)
		k.AllowSplit = true
		return lockSwarm(&drv.Scenario{Family: family, Knobs: k, Steps: steps, Fixed: 2}, idx)
	}
	n := 8 + r.IntN(16)
	for i := 0; i < n; i++ {
		open, locked := d.Open(0), d.LockedNodes(0)
		if r.Float64() < 0.03 {
			steps = append(steps, drv.Op{Op: "restart", Mode: "clean"})
			continue
		}
		if len(open) == 0 || (r.IntN(10) == 0 && len(locked) > 0 && len(d.Nodes) < 5) {
			if len(locked) == 0 {
				v := pick(r, open)
				d.Nodes[v].Locked = true
				steps = append(steps, drv.Op{Op: "commit", V: v})
				continue
			}
			var c []int
			for _, p := range locked {
				if d.CanNewVersion(p) {
					c = append(c, p)
				}
			}
			id := d.NextIdx()
			if len(c) > 0 && r.IntN(2) == 0 {
				p := pick(r, c)
				d.Add(id, VUUID(id), []int{p}, d.Nodes[p].Branch, 0)
				steps = append(steps, drv.Op{Op: "newver", V: p, N: int64(id)})
			} else {
				p := pick(r, locked)
				brc++
				name := fmt.Sprintf("ab%d", brc)
				d.Add(id, VUUID(id), []int{p}, name, 0)
				steps = append(steps, drv.Op{Op: "branch", V: p, Br: name, N: int64(id)})
			}
			continue
		}
		v := pick(r, open)
		switch y := r.IntN(100); {
		case y < 26:
			steps = append(steps, drv.Op{Op: "elpost", V: v, N: seed()})
		case y < 36:
			steps = append(steps, drv.Op{Op: "eldel", V: v, N: seed()})
		case y < 50:
			steps = append(steps, drv.Op{Op: "elmove", V: v, N: seed()})
		case y < 55:
			steps = append(steps, drv.Op{Op: "elblocks", V: v, N: seed()})
		case y < 61:
			steps = append(steps, drv.Op{Op: "ingest", V: v, N: seed()})
		case y < 67:
			steps = append(steps, drv.Op{Op: "mutate", V: v, N: seed()})
		case y < 76:
			steps = append(steps, drv.Op{Op: "lmerge", V: v, N: seed()})
		case y < 84:
			steps = append(steps, drv.Op{Op: "cleave", V: v, N: seed()})
		case y < 88:
			steps = append(steps, drv.Op{Op: "splitsv", V: v, N: seed()})
		case y < 90:
			steps = append(steps, drv.Op{Op: "bodysplit", V: v, N: seed()})
		case y < 92:
			steps = append(steps, drv.Op{Op: "parlabel", V: v, N: seed()})
		case y < 94:
			steps = append(steps, drv.Op{Op: "renumber", V: v, N: seed()})
		case y < 97:
			d.Nodes[v].Locked = true
			steps = append(steps, drv.Op{Op: "commit", V: v})
		default:
			steps = append(steps, drv.Op{Op: "acheck", V: v})
		}
	}
	steps = append(steps, drv.Op{Op: "acheckall"})
	k := baseKnobs(r)
	k.AllowSplit = true
	return lockSwarm(&drv.Scenario{Family: family, Knobs: k, Steps: steps, Fixed: 2}, idx)
}

// ---- element model ----

type aRel struct {
	Rel      string
	To       [][3]int // acceptable targets; more than one only after a one-directional reference's target moved
	Optional bool     // may be absent (one-directional reference whose target was deleted)
}
type aElem struct {
	Pos  [3]int
	Kind string
	Tags []string
	Prop map[string]string
	Rels []aRel
}

func (e *aElem) clone() *aElem {
	c := *e
	c.Tags = append([]string(nil), e.Tags...)
	c.Prop = map[string]string{}
	for k, v := range e.Prop {
		c.Prop[k] = v
	}
	c.Rels = nil
	for _, r := range e.Rels {
		c.Rels = append(c.Rels, aRel{r.Rel, append([][3]int(nil), r.To...), r.Optional})
	}
	return &c
}
func (e *aElem) hasTag(t string) bool {
	for _, x := range e.Tags {
		if x == t {
			return true
		}
	}
	return false
}

// firmRelTo reports whether e certainly references p.
func (e *aElem) firmRelTo(p [3]int) bool {
	for _, r := range e.Rels {
		if !r.Optional && len(r.To) == 1 && r.To[0] == p {
			return true
		}
	}
	return false
}

type annVersion struct{ E map[[3]int]*aElem }

func (a *annVersion) clone() *annVersion {
	c := &annVersion{E: map[[3]int]*aElem{}}
	for p, e := range a.E {
		c.E[p] = e.clone()
	}
	return c
}
func (a *annVersion) sorted() []*aElem {
	var out []*aElem
	for _, e := range a.E {
		out = append(out, e)
	}
	sort.Slice(out, func(i, j int) bool { return lessPt(out[i].Pos, out[j].Pos) })
	return out
}
func lessPt(a, b [3]int) bool {
	if a[2] != b[2] {
		return a[2] < b[2]
	}
	if a[1] != b[1] {
		return a[1] < b[1]
	}
	return a[0] < b[0]
}

type jRel struct {
	Rel string
	To  [3]int
}
type jElem struct {
	Pos  [3]int
	Kind string
	Tags []string
	Prop map[string]string
	Rels []jRel `json:",omitempty"`
}

func (e *aElem) wire() jElem {
	j := jElem{Pos: e.Pos, Kind: e.Kind, Tags: e.Tags, Prop: e.Prop}
	if j.Tags == nil {
		j.Tags = []string{}
	}
	if j.Prop == nil {
		j.Prop = map[string]string{}
	}
	for _, r := range e.Rels {
		j.Rels = append(j.Rels, jRel{r.Rel, r.To[0]})
	}
	return j
}

type AnnExec struct {
	X      *LabelExec
	W      *drv.World
	Vers   map[int]*annVersion
	Bodies map[uint64]bool
	ROI    map[[3]int]bool // block coordinates of the ROI
	LastOp string
	Edits  int
	// LabelOpUnsettled: a label operation was answered and no barrier has drained its sync events yet.
	// Overlapped[v]: an element edit of version v (or an ancestor it was copied from) was issued in that state.
	LabelOpUnsettled bool
	Overlapped       map[int]bool
}

func blockOf(p [3]int, B int) [3]int {
	return [3]int{floorDiv(p[0], B), floorDiv(p[1], B), floorDiv(p[2], B)}
}

func (a *AnnExec) url(v int, inst, rest string) string {
	return "/api/node/" + a.X.uuid(v) + "/" + inst + "/" + rest
}

func (a *AnnExec) viol(oracle, sig, detail string) *drv.Violation {
	return &drv.Violation{Prop: "C13", Oracle: oracle, Sig: sig, Detail: detail}
}

// genPos picks a position: mostly inside the label volume, biased to block borders, sometimes outside it.
func (a *AnnExec) genPos(r *rand.Rand, av *annVersion, inBlock *[3]int) [3]int {
	g := a.X.M.Geom
	nx, ny, nz := g.Dims()
	dims := [3]int{nx, ny, nz}
	off := g.Offset()
	for try := 0; ; try++ {
		var p [3]int
		if inBlock != nil {
			for k := 0; k < 3; k++ {
				p[k] = inBlock[k]*g.B + r.IntN(g.B)
				if r.IntN(4) == 0 {
					p[k] = inBlock[k]*g.B + pick(r, []int{0, g.B - 1})
				}
			}
		} else if r.IntN(10) < 8 {
			for k := 0; k < 3; k++ {
				p[k] = off[k] + r.IntN(dims[k])
				if r.IntN(4) == 0 {
					b := r.IntN(dims[k]/g.B) * g.B
					p[k] = off[k] + b + pick(r, []int{0, g.B - 1})
				}
			}
		} else {
			for k := 0; k < 3; k++ {
				p[k] = off[k] - g.B + r.IntN(dims[k]+2*g.B)
			}
		}
		if av == nil || av.E[p] == nil || try > 50 {
			return p
		}
	}
}

func genAttrs(r *rand.Rand, e *aElem, serial int) {
	e.Kind = pick(r, annKinds)
	e.Tags = nil
	for _, t := range annTags {
		if r.IntN(3) == 0 {
			e.Tags = append(e.Tags, t)
		}
	}
	e.Prop = map[string]string{}
	if r.IntN(2) == 0 {
		e.Prop["note"] = fmt.Sprintf("n%d", serial)
	}
	if r.IntN(4) == 0 {
		e.Prop["conf"] = fmt.Sprintf("0.%d", r.IntN(10))
	}
}

func (a *AnnExec) post(url string, body []byte) (int, []byte, error) { return a.X.post(url, body) }

func (a *AnnExec) Apply(op drv.Op) (*drv.Violation, error) {
	w, x := a.W, a.X
	r := drv.NewRNG(uint64(op.N)*0x9e3779b97f4a7c15 + 777)
	switch op.Op {
	case "annsetup":
		if x.M == nil {
			return nil, fmt.Errorf("%w: annsetup before lrepo", drv.ErrInfra)
		}
		u := x.uuid(0)
		g := x.M.Geom
		mk := func(cfg map[string]interface{}) error {
			st, body, e := w.HTTP("POST", "/api/repo/"+u+"/instance", jsonBody(cfg))
			if e != nil {
				return e
			}
			if st != 200 {
				return fmt.Errorf("%w: cannot create %v: %d %s", drv.ErrInfra, cfg["dataname"], st, body)
			}
			return nil
		}
		if err := mk(map[string]interface{}{"typename": "annotation", "dataname": "ann"}); err != nil {
			return nil, err
		}
		if err := mk(map[string]interface{}{"typename": "labelsz", "dataname": "lsz"}); err != nil {
			return nil, err
		}
		if err := mk(map[string]interface{}{"typename": "roi", "dataname": "reg", "BlockSize": fmt.Sprintf("%d,%d,%d", g.B, g.B, g.B)}); err != nil {
			return nil, err
		}
		for _, s := range [][2]string{{"ann", "seg"}, {"lsz", "ann"}} {
			st, body, e := w.HTTP("POST", a.url(0, s[0], "sync"), []byte(`{"sync":"`+s[1]+`"}`))
			if e != nil {
				return nil, e
			}
			if st != 200 {
				return nil, fmt.Errorf("%w: cannot sync %s to %s: %d %s", drv.ErrInfra, s[0], s[1], st, body)
			}
		}
		// ROI: a few x-spans of blocks in and around the volume
		a.ROI = map[[3]int]bool{}
		var spans [][4]int
		for i := 0; i < 1+r.IntN(3); i++ {
			z := g.Origin[2] + r.IntN(g.G[2]+1) - r.IntN(2)
			y := g.Origin[1] + r.IntN(g.G[1]+1) - r.IntN(2)
			x0 := g.Origin[0] - r.IntN(2) + r.IntN(g.G[0])
			x1 := x0 + r.IntN(2)
			clash := false
			for _, s := range spans { // one span per block row: overlapping spans are not a valid ROI
				if s[0] == z && s[1] == y {
					clash = true
				}
			}
			if clash {
				continue
			}
			spans = append(spans, [4]int{z, y, x0, x1})
			for bx := x0; bx <= x1; bx++ {
				a.ROI[[3]int{bx, y, z}] = true
			}
		}
		sort.Slice(spans, func(i, j int) bool {
			for k := 0; k < 4; k++ {
				if spans[i][k] != spans[j][k] {
					return spans[i][k] < spans[j][k]
				}
			}
			return false
		})
		sb, _ := json.Marshal(spans)
		st, body, e := w.HTTP("POST", a.url(0, "reg", "roi"), sb)
		if e != nil {
			return nil, e
		}
		if st != 200 {
			w.Stats.Probe("roi-refused")
			_ = body
			a.ROI = nil
		}
		a.Vers[0] = &annVersion{E: map[[3]int]*aElem{}}
		return nil, nil
	case "newver", "branch":
		_, v, err := x.Apply(op)
		if err != nil || v != nil {
			return v, err
		}
		if id := int(op.N); x.D.Has(id) && a.Vers[id] == nil && a.Vers[op.V] != nil {
			a.Vers[id] = a.Vers[op.V].clone()
			a.Overlapped[id] = a.Overlapped[op.V]
		}
		return nil, nil
	case "bodysplit":
		a.LastOp = "body split"
		if x.M != nil && x.D.Has(op.V) && !x.D.Nodes[op.V].Locked {
			a.noteBodies(op.V)
		}
		vv, err := bodySplit(w, x, op) // settles and adopts the server's voxels
		if err == nil && vv == nil && w.Stats.Probes["body-split"] > 0 {
			a.LabelOpUnsettled = false
		}
		return vv, err
	case "elpost", "eldel", "elmove", "elblocks":
	default:
		switch op.Op {
		case "ingest":
			a.LastOp = "label ingest"
		case "mutate":
			a.LastOp = "mutating voxel write"
		case "lmerge":
			a.LastOp = "merge"
		case "cleave":
			a.LastOp = "cleave"
		case "splitsv":
			a.LastOp = "supervoxel split"
		case "renumber":
			a.LastOp = "renumber"
		case "parlabel":
			a.LastOp = "concurrent cleaves/merges"
		}
		if x.M != nil && x.D.Has(op.V) {
			a.noteBodies(op.V)
		}
		_, v, err := x.Apply(op)
		if op.Op == "parlabel" && x.LastPar != "" {
			a.LastOp = "concurrent " + x.LastPar
		}
		if v != nil && v.Oracle == "write-ack" {
			v = nil // refusals of label writes are C08's concern
		}
		if x.NoSettle {
			switch op.Op {
			case "ingest", "mutate", "lmerge", "cleave", "splitsv", "renumber", "parlabel":
				a.LabelOpUnsettled = true
			}
		}
		return v, err
	}
	if x.M == nil || !x.D.Has(op.V) || x.D.Nodes[op.V].Locked || a.Vers[op.V] == nil {
		x.Skipped++
		return nil, nil
	}
	av := a.Vers[op.V]
	g := x.M.Geom
	if a.LabelOpUnsettled && op.Op != "elblocks" {
		a.Overlapped[op.V] = true
		w.Stats.Probe("edit-overlaps-queued-label-sync")
	}
	switch op.Op {
	case "elpost":
		a.LastOp = "POST elements"
		n := 1 + r.IntN(3)
		posted := map[[3]int]*aElem{}
		var order [][3]int
		existing := av.sorted()
		for i := 0; i < n; i++ {
			e := &aElem{}
			if len(existing) > 0 && r.IntN(3) == 0 {
				e.Pos = pick(r, existing).Pos // overwrite
				if posted[e.Pos] != nil {
					continue
				}
				w.Stats.Probe("element-overwrite")
			} else {
				e.Pos = a.genPos(r, av, nil)
				if posted[e.Pos] != nil || av.E[e.Pos] != nil {
					continue
				}
			}
			a.Edits++
			genAttrs(r, e, a.Edits)
			if old := av.E[e.Pos]; old != nil && r.IntN(2) == 0 {
				e.Kind = old.Kind // tags/properties change only
			}
			posted[e.Pos] = e
			order = append(order, e.Pos)
		}
		// relationships: to elements of this request or existing ones; usually the partner is updated too
		cur := func(p [3]int) *aElem {
			if e := posted[p]; e != nil {
				return e
			}
			return av.E[p]
		}
		for _, p := range append([][3]int(nil), order...) {
			e := posted[p]
			var cands [][3]int
			for _, q := range order {
				if q != p {
					cands = append(cands, q)
				}
			}
			for _, q := range existing {
				if q.Pos != p && posted[q.Pos] == nil {
					cands = append(cands, q.Pos)
				}
			}
			for k := 0; k < 2 && len(cands) > 0; k++ {
				if r.IntN(2) == 0 {
					continue
				}
				q := pick(r, cands)
				if e.firmRelTo(q) {
					continue
				}
				e.Rels = append(e.Rels, aRel{Rel: pick(r, annRelKinds), To: [][3]int{q}})
				if r.IntN(5) > 0 { // mutual
					pe := posted[q]
					if pe == nil {
						pe = cur(q).clone()
						// a rewritten partner is sent with the relationships it is known to have
						var firm []aRel
						for _, rr := range pe.Rels {
							if !rr.Optional && len(rr.To) == 1 {
								firm = append(firm, rr)
							}
						}
						pe.Rels = firm
						posted[q] = pe
						order = append(order, q)
					}
					if !pe.firmRelTo(p) {
						pe.Rels = append(pe.Rels, aRel{Rel: pick(r, annRelKinds), To: [][3]int{p}})
					}
					w.Stats.Probe("mutual-relationship")
				}
			}
		}
		if len(order) == 0 {
			return nil, nil
		}
		var wire []jElem
		for _, p := range order {
			wire = append(wire, posted[p].wire())
		}
		body, _ := json.Marshal(wire)
		st, rb, err := a.post(a.url(op.V, "ann", "elements"), body)
		if err != nil {
			return nil, err
		}
		if st != 200 {
			return a.viol("edit-ack", "valid POST elements refused", fmt.Sprintf("POST elements %s -> %d %s", body, st, trunc(rb))), nil
		}
		for _, p := range order {
			av.E[p] = posted[p]
		}
		w.Stats.Probe("element-post")
		return nil, nil
	case "eldel":
		a.LastOp = "DELETE element"
		existing := av.sorted()
		if len(existing) == 0 || r.IntN(10) == 0 {
			p := a.genPos(r, av, nil)
			if av.E[p] != nil {
				return nil, nil
			}
			st, rb, err := a.X.W.HTTP("DELETE", a.url(op.V, "ann", fmt.Sprintf("element/%d_%d_%d", p[0], p[1], p[2])), nil)
			if err != nil {
				return nil, err
			}
			if st == 200 {
				return a.viol("edit-ack", "DELETE of an absent element acknowledged", fmt.Sprintf("DELETE element %v -> %d %s", p, st, trunc(rb))), nil
			}
			w.Stats.Probe("element-delete-absent")
			return nil, nil
		}
		e := pick(r, existing)
		st, rb, err := a.del(a.url(op.V, "ann", fmt.Sprintf("element/%d_%d_%d", e.Pos[0], e.Pos[1], e.Pos[2])))
		if err != nil {
			return nil, err
		}
		if st != 200 {
			return a.viol("edit-ack", "valid DELETE element refused", fmt.Sprintf("DELETE element %v -> %d %s", e.Pos, st, trunc(rb))), nil
		}
		delete(av.E, e.Pos)
		for _, q := range av.E {
			var keep []aRel
			for _, rr := range q.Rels {
				hit := false
				for _, t := range rr.To {
					if t == e.Pos {
						hit = true
					}
				}
				if !hit {
					keep = append(keep, rr)
					continue
				}
				if len(rr.To) == 1 && !rr.Optional && e.firmRelTo(q.Pos) {
					w.Stats.Probe("partner-reference-removed")
					continue // mutual: must be removed
				}
				rr.Optional = true
				keep = append(keep, rr)
				w.Stats.Probe("one-directional-reference")
			}
			q.Rels = keep
		}
		a.Edits++
		w.Stats.Probe("element-delete")
		return nil, nil
	case "elmove":
		a.LastOp = "move"
		existing := av.sorted()
		if len(existing) == 0 {
			return nil, nil
		}
		e := pick(r, existing)
		var to [3]int
		switch r.IntN(3) {
		case 0:
			b := blockOf(e.Pos, g.B)
			to = a.genPos(r, av, &b)
			w.Stats.Probe("move-within-block")
		default:
			to = a.genPos(r, av, nil)
		}
		if av.E[to] != nil || to == e.Pos {
			return nil, nil
		}
		from := e.Pos
		st, rb, err := a.post(a.url(op.V, "ann", fmt.Sprintf("move/%d_%d_%d/%d_%d_%d", from[0], from[1], from[2], to[0], to[1], to[2])), nil)
		if err != nil {
			return nil, err
		}
		if st != 200 {
			return a.viol("edit-ack", "valid move refused", fmt.Sprintf("move %v -> %v: %d %s", from, to, st, trunc(rb))), nil
		}
		if blockOf(from, g.B) != blockOf(to, g.B) {
			w.Stats.Probe("move-across-blocks")
		}
		delete(av.E, from)
		e.Pos = to
		av.E[to] = e
		for _, q := range av.E {
			if q == e {
				continue
			}
			for i, rr := range q.Rels {
				hit := false
				for _, t := range rr.To {
					if t == from {
						hit = true
					}
				}
				if !hit {
					continue
				}
				if len(rr.To) == 1 && !rr.Optional && e.firmRelTo(q.Pos) {
					q.Rels[i].To = [][3]int{to} // mutual: must follow
					w.Stats.Probe("partner-reference-moved")
				} else {
					q.Rels[i].To = append(q.Rels[i].To, to)
					w.Stats.Probe("one-directional-reference")
				}
			}
		}
		a.Edits++
		w.Stats.Probe("element-move")
		return nil, nil
	case "elblocks":
		a.LastOp = "POST blocks + reload"
		nb := 1 + r.IntN(3)
		blocks := map[string][]jElem{}
		repl := map[[3]int][]*aElem{}
		for i := 0; i < nb; i++ {
			var b [3]int
			for k := 0; k < 3; k++ {
				b[k] = g.Origin[k] + r.IntN(g.G[k])
				if r.IntN(8) == 0 {
					b[k] = g.Origin[k] - 1
				}
			}
			if _, dup := repl[b]; dup {
				continue
			}
			var es []*aElem
			// keep some of the present elements of the block, add new ones
			for _, e := range av.sorted() {
				if blockOf(e.Pos, g.B) == b && r.IntN(2) == 0 {
					c := e.clone()
					var firm []aRel
					for _, rr := range c.Rels {
						if !rr.Optional && len(rr.To) == 1 {
							firm = append(firm, rr)
						}
					}
					c.Rels = firm
					if r.IntN(2) == 0 {
						a.Edits++
						genAttrs(r, c, a.Edits)
					}
					es = append(es, c)
				}
			}
			for j := r.IntN(3); j > 0; j-- {
				e := &aElem{Pos: a.genPos(r, av, &b)}
				dup := false
				for _, o := range es {
					if o.Pos == e.Pos {
						dup = true
					}
				}
				if dup {
					continue
				}
				a.Edits++
				genAttrs(r, e, a.Edits)
				es = append(es, e)
			}
			repl[b] = es
			key := fmt.Sprintf("%d,%d,%d", b[0], b[1], b[2])
			blocks[key] = []jElem{}
			for _, e := range es {
				blocks[key] = append(blocks[key], e.wire())
			}
		}
		body, _ := json.Marshal(blocks)
		st, rb, err := a.post(a.url(op.V, "ann", "blocks"), body)
		if err != nil {
			return nil, err
		}
		if st != 200 {
			return a.viol("edit-ack", "valid POST blocks refused", fmt.Sprintf("POST blocks %s -> %d %s", body, st, trunc(rb))), nil
		}
		for p, e := range av.E {
			if _, ok := repl[blockOf(p, g.B)]; ok {
				delete(av.E, e.Pos)
			}
		}
		for _, es := range repl {
			for _, e := range es {
				av.E[e.Pos] = e
			}
		}
		if err := w.Barrier(); err != nil {
			return nil, err
		}
		a.LabelOpUnsettled = false
		q := "reload"
		if r.IntN(2) == 0 {
			q = "reload?inmemory=false"
			w.Stats.Probe("reload-lowmemory")
		} else {
			w.Stats.Probe("reload-inmemory")
		}
		st, rb, err = w.HTTP("POST", a.url(op.V, "ann", q), nil)
		if err != nil {
			return nil, err
		}
		if st != 200 {
			return a.viol("edit-ack", "reload refused", fmt.Sprintf("POST %s -> %d %s", q, st, trunc(rb))), nil
		}
		st, rb, err = w.HTTP("POST", a.url(op.V, "lsz", "reload"), nil)
		if err != nil {
			return nil, err
		}
		if st != 200 {
			return a.viol("edit-ack", "labelsz reload refused", fmt.Sprintf("POST lsz/reload -> %d %s", st, trunc(rb))), nil
		}
		a.Edits++
		w.Stats.Probe("blocks-ingest-reload")
		return nil, nil
	}
	return nil, nil
}

func (a *AnnExec) del(url string) (int, []byte, error) {
	if !a.X.NoSettle {
		return a.W.HTTP("DELETE", url, nil)
	}
	res, err := a.W.Batch([]proto.Req{{Client: "c1", Kind: "http", Method: "DELETE", URL: url}}, "return")
	if err != nil {
		return 0, nil, err
	}
	if res.Wedged {
		return 0, nil, a.W.ClassifyWedge("DELETE "+url, res.Stacks)
	}
	return res.Resps[0].Status, res.Resps[0].Body, nil
}

// noteBodies remembers every body id of the label model (label lists of bodies that vanish must become empty).
func (a *AnnExec) noteBodies(v int) {
	lv := a.X.M.Versions[v]
	if lv == nil {
		return
	}
	for _, b := range sortedBodies(lv) {
		a.Bodies[b] = true
	}
}

// sigOverlap classifies the one known way the per-body index and the counts go wrong: an element edit
// executed while a label event for the same instance was still queued (see known_findings.json).
const sigOverlap = "per-body index or counts differ after an element edit overlapped a queued label sync event"

// ---- comparison ----

func normTags(t []string) string {
	s := append([]string(nil), t...)
	sort.Strings(s)
	return strings.Join(s, ",")
}
func normProp(p map[string]string) string {
	var ks []string
	for k := range p {
		ks = append(ks, k)
	}
	sort.Strings(ks)
	var sb strings.Builder
	for _, k := range ks {
		fmt.Fprintf(&sb, "%s=%s;", k, p[k])
	}
	return sb.String()
}

func relsMatch(got []jRel, want []aRel) bool {
	left := append([]jRel(nil), got...)
	take := func(rel string, tos [][3]int) bool {
		for i, gr := range left {
			if gr.Rel != rel {
				continue
			}
			for _, t := range tos {
				if gr.To == t {
					left = append(left[:i], left[i+1:]...)
					return true
				}
			}
		}
		return false
	}
	// firm single-target relationships first, then the relaxed ones
	for _, wr := range want {
		if !wr.Optional && len(wr.To) == 1 {
			if !take(wr.Rel, wr.To) {
				return false
			}
		}
	}
	for _, wr := range want {
		if !wr.Optional && len(wr.To) > 1 {
			if !take(wr.Rel, wr.To) {
				return false
			}
		}
	}
	for _, wr := range want {
		if wr.Optional {
			take(wr.Rel, wr.To)
		}
	}
	return len(left) == 0
}

func descWant(e *aElem, rels bool) string {
	s := fmt.Sprintf("{Pos %v Kind %s Tags [%s] Prop {%s}", e.Pos, e.Kind, normTags(e.Tags), normProp(e.Prop))
	if rels {
		s += fmt.Sprintf(" Rels %v", e.Rels)
	}
	return s + "}"
}
func descGot(e jElem, rels bool) string {
	s := fmt.Sprintf("{Pos %v Kind %s Tags [%s] Prop {%s}", e.Pos, e.Kind, normTags(e.Tags), normProp(e.Prop))
	if rels {
		s += fmt.Sprintf(" Rels %v", e.Rels)
	}
	return s + "}"
}

// cmpElems compares a returned element list with the expected set; "" when equal.
// kind classifies the first difference: missing, extra, duplicate, attributes, relationships.
func cmpElems(got []jElem, want []*aElem, rels bool) (kind, detail string) {
	seen := map[[3]int]bool{}
	wm := map[[3]int]*aElem{}
	for _, e := range want {
		wm[e.Pos] = e
	}
	sort.Slice(got, func(i, j int) bool { return lessPt(got[i].Pos, got[j].Pos) })
	for _, ge := range got {
		if seen[ge.Pos] {
			return "duplicate", fmt.Sprintf("position %v returned twice", ge.Pos)
		}
		seen[ge.Pos] = true
		we := wm[ge.Pos]
		if we == nil {
			return "extra", fmt.Sprintf("returned %s, which is not in the expected set", descGot(ge, rels))
		}
		if ge.Kind != we.Kind || normTags(ge.Tags) != normTags(we.Tags) || normProp(ge.Prop) != normProp(we.Prop) {
			return "attributes", fmt.Sprintf("returned %s, expected %s", descGot(ge, false), descWant(we, false))
		}
		if rels && !relsMatch(ge.Rels, we.Rels) {
			return "relationships", fmt.Sprintf("returned %s, expected %s", descGot(ge, true), descWant(we, true))
		}
	}
	for _, we := range want {
		if !seen[we.Pos] {
			return "missing", fmt.Sprintf("expected %s is not returned", descWant(we, rels))
		}
	}
	return "", ""
}

func parseElems(b []byte) ([]jElem, error) {
	s := strings.TrimSpace(string(b))
	if s == "" || s == "null" {
		return nil, nil
	}
	var out []jElem
	err := json.Unmarshal(b, &out)
	return out, err
}

func (a *AnnExec) listing(av *annVersion) string {
	var sb strings.Builder
	for _, e := range av.sorted() {
		sb.WriteString("  " + descWant(e, true) + "\n")
	}
	return sb.String()
}

// Check compares every view of version v with the model.
func (a *AnnExec) Check(v int, r *rand.Rand) (*drv.Violation, error) {
	x, w := a.X, a.W
	av := a.Vers[v]
	if x.M == nil || av == nil || !x.D.Has(v) {
		return nil, nil
	}
	g := x.M.Geom
	all := av.sorted()
	after := a.LastOp
	if after == "" {
		after = "set-up"
	}
	fail := func(view, kind, url string, detail string) *drv.Violation {
		return a.viol("view-vs-elements", fmt.Sprintf("%s: %s element (last operation: %s)", view, kind, after),
			fmt.Sprintf("version %d(%s) GET %s: %s\nmodel element set:\n%s", v, x.uuid(v)[:4], url, detail, a.listing(av)))
	}
	get := func(url string, body []byte) ([]byte, *drv.Violation, error) {
		st, b, err := w.HTTP("GET", url, body)
		if err != nil {
			return nil, nil, err
		}
		if st != 200 {
			return nil, a.viol("view-read", "view read fails", fmt.Sprintf("GET %s -> %d %s", url, st, trunc(b))), nil
		}
		return b, nil, nil
	}
	// --- block store: all-elements
	{
		url := a.url(v, "ann", "all-elements")
		b, vv, err := get(url, nil)
		if vv != nil || err != nil {
			return vv, err
		}
		var m map[string][]jElem
		if err := json.Unmarshal(b, &m); err != nil {
			return a.viol("view-read", "all-elements is not valid JSON", fmt.Sprintf("GET %s: %v: %s", url, err, trunc(b))), nil
		}
		var flat []jElem
		for key, es := range m {
			var bc [3]int
			fmt.Sscanf(key, "%d,%d,%d", &bc[0], &bc[1], &bc[2])
			for _, e := range es {
				if blockOf(e.Pos, g.B) != bc {
					return fail("all-elements", "misfiled", url, fmt.Sprintf("element %v listed under block %s", e.Pos, key)), nil
				}
				flat = append(flat, e)
			}
		}
		if k, d := cmpElems(flat, all, true); k != "" {
			return fail("all-elements", k, url, d), nil
		}
	}
	// --- spatial queries
	nx, ny, nz := g.Dims()
	off := g.Offset()
	type box struct{ o, s [3]int }
	boxes := []box{{[3]int{off[0] - 2*g.B, off[1] - 2*g.B, off[2] - 2*g.B}, [3]int{nx + 4*g.B, ny + 4*g.B, nz + 4*g.B}}}
	for i := 0; i < 3; i++ {
		var bx box
		for k, d := range [3]int{nx, ny, nz} {
			bx.o[k] = off[k] - g.B + r.IntN(d+g.B)
			bx.s[k] = 1 + r.IntN(d+g.B)
			if r.IntN(3) == 0 { // block aligned
				bx.o[k] = floorDiv(bx.o[k], g.B) * g.B
				bx.s[k] = (1 + r.IntN(2)) * g.B
			}
		}
		boxes = append(boxes, bx)
	}
	if len(all) > 0 { // a one-voxel box on an element and one just beside it
		p := pick(r, all).Pos
		boxes = append(boxes, box{p, [3]int{1, 1, 1}}, box{[3]int{p[0] + 1, p[1], p[2]}, [3]int{2, 2, 2}})
	}
	for _, bx := range boxes {
		var want, wantBlk []*aElem
		for _, e := range all {
			in := true
			for k := 0; k < 3; k++ {
				if e.Pos[k] < bx.o[k] || e.Pos[k] >= bx.o[k]+bx.s[k] {
					in = false
				}
			}
			if in {
				want = append(want, e)
			}
			b := blockOf(e.Pos, g.B)
			inb := true
			for k := 0; k < 3; k++ {
				if b[k] < floorDiv(bx.o[k], g.B) || b[k] > floorDiv(bx.o[k]+bx.s[k]-1, g.B) {
					inb = false
				}
			}
			if inb {
				wantBlk = append(wantBlk, e)
			}
		}
		url := a.url(v, "ann", fmt.Sprintf("elements/%d_%d_%d/%d_%d_%d", bx.s[0], bx.s[1], bx.s[2], bx.o[0], bx.o[1], bx.o[2]))
		b, vv, err := get(url, nil)
		if vv != nil || err != nil {
			return vv, err
		}
		got, err := parseElems(b)
		if err != nil {
			return a.viol("view-read", "elements query is not valid JSON", fmt.Sprintf("GET %s: %v: %s", url, err, trunc(b))), nil
		}
		if k, d := cmpElems(got, want, true); k != "" {
			return fail("elements/<size>/<offset>", k, url, d), nil
		}
		url = a.url(v, "ann", fmt.Sprintf("blocks/%d_%d_%d/%d_%d_%d", bx.s[0], bx.s[1], bx.s[2], bx.o[0], bx.o[1], bx.o[2]))
		b, vv, err = get(url, nil)
		if vv != nil || err != nil {
			return vv, err
		}
		var m map[string][]jElem
		if err := json.Unmarshal(b, &m); err != nil {
			return a.viol("view-read", "blocks query is not valid JSON", fmt.Sprintf("GET %s: %v: %s", url, err, trunc(b))), nil
		}
		var flat []jElem
		for _, es := range m {
			flat = append(flat, es...)
		}
		if k, d := cmpElems(flat, wantBlk, true); k != "" {
			return fail("blocks/<size>/<offset>", k, url, d), nil
		}
	}
	if a.ROI != nil {
		var want []*aElem
		for _, e := range all {
			if a.ROI[blockOf(e.Pos, g.B)] {
				want = append(want, e)
			}
		}
		url := a.url(v, "ann", "roi/reg,"+x.uuid(0))
		b, vv, err := get(url, nil)
		if vv != nil || err != nil {
			return vv, err
		}
		got, err := parseElems(b)
		if err != nil {
			return a.viol("view-read", "roi query is not valid JSON", fmt.Sprintf("GET %s: %v: %s", url, err, trunc(b))), nil
		}
		if k, d := cmpElems(got, want, true); k != "" {
			return fail("roi/<spec>", k, url, d), nil
		}
		w.Stats.Probe("roi-view-checked")
	}
	// --- tag index
	for _, t := range annTags {
		var want []*aElem
		for _, e := range all {
			if e.hasTag(t) {
				want = append(want, e)
			}
		}
		for _, rels := range []bool{false, true} {
			url := a.url(v, "ann", "tag/"+strings.ReplaceAll(t, "/", "%2F"))
			if strings.Contains(t, "/") {
				continue // a tag holding '/' cannot be addressed in the URL path
			}
			if rels {
				url += "?relationships=true"
			}
			b, vv, err := get(url, nil)
			if vv != nil || err != nil {
				return vv, err
			}
			got, err := parseElems(b)
			if err != nil {
				return a.viol("view-read", "tag query is not valid JSON", fmt.Sprintf("GET %s: %v: %s", url, err, trunc(b))), nil
			}
			if k, d := cmpElems(got, want, rels); k != "" {
				return fail("tag/<t>", k, url, d), nil
			}
		}
	}
	// --- body of every element, from the label volume itself
	bodyOf := map[[3]int]uint64{}
	if len(all) > 0 {
		var pts [][3]int
		for _, e := range all {
			pts = append(pts, e.Pos)
		}
		pb, _ := json.Marshal(pts)
		url := a.url(v, "seg", "labels")
		b, vv, err := get(url, pb)
		if vv != nil || err != nil {
			return vv, err
		}
		var ls []uint64
		if err := json.Unmarshal(b, &ls); err != nil || len(ls) != len(pts) {
			return a.viol("view-read", "labels query unusable", fmt.Sprintf("GET %s %s -> %s", url, pb, trunc(b))), nil
		}
		for i, p := range pts {
			bodyOf[p] = ls[i]
			if ls[i] != 0 {
				a.Bodies[ls[i]] = true
			}
		}
	}
	a.noteBodies(v)
	var bodies []uint64
	for b := range a.Bodies {
		bodies = append(bodies, b)
	}
	sort.Slice(bodies, func(i, j int) bool { return bodies[i] < bodies[j] })
	counts := map[string]map[uint64]int{}
	for _, t := range lszTypes {
		counts[t] = map[uint64]int{}
	}
	for _, l := range bodies {
		var want []*aElem
		for _, e := range all {
			if bodyOf[e.Pos] == l {
				want = append(want, e)
				counts[e.Kind][l]++
				if e.Kind != "Note" {
					counts["AllSyn"][l]++
				}
			}
		}
		for _, rels := range []bool{false, true} {
			url := a.url(v, "ann", fmt.Sprintf("label/%d", l))
			if rels {
				url += "?relationships=true"
			}
			b, vv, err := get(url, nil)
			if vv != nil || err != nil {
				return vv, err
			}
			got, err := parseElems(b)
			if err != nil {
				return a.viol("view-read", "label query is not valid JSON", fmt.Sprintf("GET %s: %v: %s", url, err, trunc(b))), nil
			}
			if k, d := cmpElems(got, want, rels); k != "" {
				vv := fail("label/<l>", k, url, d)
				vv.Detail += fmt.Sprintf("bodies at element positions (GET seg/labels): %v\n", bodyOf)
				if a.Overlapped[v] && k != "relationships" {
					vv.Sig = sigOverlap
				}
				return vv, nil
			}
		}
	}
	w.Stats.Probe("annotation-views-checked")
	// --- labelsz
	lfail := func(view, url, detail string) *drv.Violation {
		sig := fmt.Sprintf("labelsz %s differs from counts computed from the elements (last operation: %s)", view, after)
		if a.Overlapped[v] {
			sig = sigOverlap
		}
		return a.viol("counts-vs-elements", sig,
			fmt.Sprintf("version %d(%s) GET %s: %s\nbodies at element positions: %v\nmodel element set:\n%s", v, x.uuid(v)[:4], url, detail, bodyOf, a.listing(av)))
	}
	lb, _ := json.Marshal(bodies)
	for _, t := range lszTypes {
		if len(bodies) > 0 {
			url := a.url(v, "lsz", "counts/"+t)
			b, vv, err := get(url, lb)
			if vv != nil || err != nil {
				return vv, err
			}
			var rows []map[string]uint64
			if err := json.Unmarshal(b, &rows); err != nil || len(rows) != len(bodies) {
				return lfail("counts", url, fmt.Sprintf("unusable answer %s for labels %s", trunc(b), lb)), nil
			}
			for i, row := range rows {
				if row["Label"] != bodies[i] || int(row[t]) != counts[t][bodies[i]] {
					return lfail("counts", url, fmt.Sprintf("label %d: reported %v, computed %s=%d", bodies[i], row, t, counts[t][bodies[i]])), nil
				}
			}
			l := pick(r, bodies)
			url = a.url(v, "lsz", fmt.Sprintf("count/%d/%s", l, t))
			b, vv, err = get(url, nil)
			if vv != nil || err != nil {
				return vv, err
			}
			var row map[string]uint64
			if err := json.Unmarshal(b, &row); err != nil || row["Label"] != l || int(row[t]) != counts[t][l] {
				return lfail("count", url, fmt.Sprintf("reported %s, computed %s=%d", trunc(b), t, counts[t][l])), nil
			}
		}
		// ranking: every label with a non-zero count, by descending count
		type ls struct {
			Label uint64
			Size  int
		}
		var rank []ls
		for l, c := range counts[t] {
			if c > 0 {
				rank = append(rank, ls{l, c})
			}
		}
		sort.Slice(rank, func(i, j int) bool {
			if rank[i].Size != rank[j].Size {
				return rank[i].Size > rank[j].Size
			}
			return rank[i].Label < rank[j].Label
		})
		checkRank := func(view, url string, wantN int, minSize int) (*drv.Violation, error) {
			b, vv, err := get(url, nil)
			if vv != nil || err != nil {
				return vv, err
			}
			var got []ls
			if s := strings.TrimSpace(string(b)); s != "null" {
				if err := json.Unmarshal(b, &got); err != nil {
					return lfail(view, url, fmt.Sprintf("unusable answer %s", trunc(b))), nil
				}
			}
			var want []ls
			for _, e := range rank {
				if e.Size >= minSize {
					want = append(want, e)
				}
			}
			if wantN >= 0 && len(want) > wantN {
				want = want[:wantN]
			}
			if len(got) != len(want) {
				return lfail(view, url, fmt.Sprintf("reported %v, computed ranking %v", got, want)), nil
			}
			seen := map[uint64]bool{}
			for i, ge := range got {
				if ge.Size != want[i].Size || counts[t][ge.Label] != ge.Size || seen[ge.Label] {
					return lfail(view, url, fmt.Sprintf("reported %v, computed ranking %v (ties in any order)", got, want)), nil
				}
				seen[ge.Label] = true
			}
			return nil, nil
		}
		n := 1 + r.IntN(4)
		if vv, err := checkRank("top", a.url(v, "lsz", fmt.Sprintf("top/%d/%s", n, t)), n, 0); vv != nil || err != nil {
			return vv, err
		}
		if vv, err := checkRank("top", a.url(v, "lsz", fmt.Sprintf("top/%d/%s", 50, t)), 50, 0); vv != nil || err != nil {
			return vv, err
		}
		th := 1 + r.IntN(3)
		if vv, err := checkRank("threshold", a.url(v, "lsz", fmt.Sprintf("threshold/%d/%s", th, t)), -1, th); vv != nil || err != nil {
			return vv, err
		}
	}
	w.Stats.Probe("labelsz-checked")
	return nil, nil
}

func (C13) Execute(sc *drv.Scenario, w *drv.World) (*drv.Violation, error) {
	if _, err := w.Start(); err != nil {
		return nil, err
	}
	x := NewLabelExec(w, "C13")
	a := &AnnExec{X: x, W: w, Vers: map[int]*annVersion{}, Bodies: map[uint64]bool{}, Overlapped: map[int]bool{}}
	nosettle := sc.Family == "nosettle"
	cr := drv.NewRNG(sc.Seed*31 + uint64(sc.Idx) + 5)
	pendingCheck := -1
	for i, op := range sc.Steps {
		w.CurStep = i
		switch op.Op {
		case "acheck", "acheckall":
			if err := w.Barrier(); err != nil {
				return nil, err
			}
			a.LabelOpUnsettled = false
			vs := []int{op.V}
			if op.Op == "acheckall" {
				vs = x.D.Sorted()
			}
			for _, vi := range vs {
				if v, err := a.Check(vi, cr); v != nil || err != nil {
					if v != nil {
						v.Step = i
					}
					return v, err
				}
			}
			pendingCheck = -1
			continue
		}
		x.NoSettle = nosettle && op.Op != "lrepo" && op.Op != "annsetup"
		v, err := a.Apply(op)
		x.NoSettle = false
		if err != nil {
			return nil, err
		}
		if v != nil {
			v.Step = i
			return v, nil
		}
		switch op.Op {
		case "elpost", "eldel", "elmove", "elblocks", "ingest", "mutate", "lmerge", "cleave", "splitsv", "bodysplit", "renumber", "parlabel":
		default:
			continue
		}
		if nosettle && cr.IntN(3) > 0 {
			pendingCheck = op.V // keep going with events queued
			continue
		}
		if err := w.Barrier(); err != nil {
			return nil, err
		}
		a.LabelOpUnsettled = false
		if v, err := a.Check(op.V, cr); v != nil || err != nil {
			if v != nil {
				v.Step = i
			}
			return v, err
		}
		pendingCheck = -1
		if x.D.Has(op.V) && len(x.D.Nodes[op.V].Parents) > 0 && i%3 == 0 {
			if v, err := a.Check(x.D.Nodes[op.V].Parents[0], cr); v != nil || err != nil {
				if v != nil {
					v.Step = i
				}
				return v, err
			}
		}
	}
	_ = pendingCheck
	w.Discard()
	return nil, nil
}

func (C13) NonTrivial(sc *drv.Scenario, st *drv.RunStats) bool {
	edits := st.Probes["element-post"] + st.Probes["element-delete"] + st.Probes["element-move"] + st.Probes["blocks-ingest-reload"]
	lops := st.Probes["label-parlabel"] + st.Probes["label-merge"] + st.Probes["label-cleave"] + st.Probes["label-splitsv"] + st.Probes["label-mutate"] + st.Probes["label-ingest"] + st.Probes["body-split"] + st.Probes["label-renumber"]
	return edits >= 3 && lops >= 1
}
