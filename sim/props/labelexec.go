package props

// Executor for labelmap histories: applies symbolic operations to DVID and to
// the reference model, and compares every read endpoint with the model.

import (
	"encoding/binary"
	"encoding/json"
	"fmt"
	"math/rand/v2"
	"os"
	"sort"
	"strconv"
	"strings"

	"verif/sim/drv"
	"verif/sim/proto"
)

type LabelExec struct {
	LastPar string // what the last parlabel batch consisted of
	EndRun  bool   // set by an operation after which the model no longer describes the volume: the run ends without further checks
	W       *drv.World
	D       *DAG
	M       *LabelModel
	Inst    string
	Prop    string
	MaxDown int
	// ids handed out by the server, in issue order (C12)
	AllocLabels  []uint64
	MutIDs       []uint64
	Repositioned bool // an administrator moved the label counter (set-nextlabel)
	NoSettle     bool // issue mutations without waiting for background work (C14 idle clause)
	labelCtr     uint64
	Skipped      int
}

func NewLabelExec(w *drv.World, prop string) *LabelExec {
	return &LabelExec{W: w, D: NewDAG(), Inst: "seg", Prop: prop, labelCtr: 0}
}

func (x *LabelExec) uuid(v int) string { return x.D.Nodes[v].UUID }

// post issues a mutation; with NoSettle the request returns as soon as it is answered and
// background goroutines stay wherever the scheduler left them.
func (x *LabelExec) post(url string, body []byte) (int, []byte, error) {
	if !x.NoSettle {
		return x.W.HTTP("POST", url, body)
	}
	res, err := x.W.Batch([]proto.Req{{Client: "c1", Kind: "http", Method: "POST", URL: url, Body: body}}, "return")
	if err != nil {
		return 0, nil, err
	}
	if res.Wedged {
		return 0, nil, x.W.ClassifyWedge("POST "+url, res.Stacks)
	}
	return res.Resps[0].Status, res.Resps[0].Body, nil
}
func (x *LabelExec) base(v int) string { return "/api/node/" + x.uuid(v) + "/" + x.Inst }

func (x *LabelExec) viol(oracle, sig, detail string) *drv.Violation {
	return &drv.Violation{Prop: x.Prop, Oracle: oracle, Sig: sig, Detail: detail}
}

func (x *LabelExec) boxURL(v int, b0, nb [3]int) string {
	g := x.M.Geom
	return fmt.Sprintf("%s/raw/0_1_2/%d_%d_%d/%d_%d_%d", x.base(v), nb[0]*g.B, nb[1]*g.B, nb[2]*g.B,
		(g.Origin[0]+b0[0])*g.B, (g.Origin[1]+b0[1])*g.B, (g.Origin[2]+b0[2])*g.B)
}

// genLayout fills a box with supervoxels: Voronoi cells of a few seeds, optional background,
// optional tiny supervoxel confined to a sub-block.
func genLayout(r *rand.Rand, dims [3]int, labels []uint64, background bool) []uint64 {
	n := dims[0] * dims[1] * dims[2]
	out := make([]uint64, n)
	type seed struct {
		p [3]int
		l uint64
	}
	var seeds []seed
	for _, l := range labels {
		seeds = append(seeds, seed{[3]int{r.IntN(dims[0]), r.IntN(dims[1]), r.IntN(dims[2])}, l})
	}
	radius := 1 << 30
	if background {
		radius = (dims[0] + dims[1] + dims[2]) / 4
	}
	i := 0
	for z := 0; z < dims[2]; z++ {
		for y := 0; y < dims[1]; y++ {
			for x := 0; x < dims[0]; x++ {
				best, bd := uint64(0), 1<<30
				for _, s := range seeds {
					d := abs(x-s.p[0]) + abs(y-s.p[1]) + abs(z-s.p[2])
					if d < bd {
						bd, best = d, s.l
					}
				}
				if bd <= radius {
					out[i] = best
				}
				i++
			}
		}
	}
	return out
}

func abs(a int) int {
	if a < 0 {
		return -a
	}
	return a
}

func (x *LabelExec) newSV(r *rand.Rand) uint64 {
	// supervoxel ids chosen by the client are always above every label present or handed
	// out so far (a client must not reuse an id the server allocated for a body)
	x.labelCtr++
	top := x.M.Reserved
	switch r.IntN(12) {
	case 0:
		if top < 1<<44 {
			return top + 1<<40
		}
	case 1:
		if top < 1<<44 {
			return top + 1<<32
		}
	}
	return top + 1 + uint64(r.IntN(3))
}

func parseMutResp(body []byte) map[string]uint64 {
	out := map[string]uint64{}
	var m map[string]interface{}
	dec := json.NewDecoder(strings.NewReader(string(body)))
	dec.UseNumber()
	if dec.Decode(&m) != nil {
		return out
	}
	for k, v := range m {
		if n, ok := v.(json.Number); ok {
			if u, err := strconv.ParseUint(n.String(), 10, 64); err == nil {
				out[k] = u
			}
		}
	}
	return out
}

// Apply executes one labelmap-history operation.  handled=false for unknown kinds.
func (x *LabelExec) Apply(op drv.Op) (handled bool, v *drv.Violation, err error) {
	w := x.W
	r := drv.NewRNG(uint64(op.N)*0x9e3779b97f4a7c15 + 12345)
	switch op.Op {
	case "lrepo":
		g := LabelGeom{B: op.P[0][0], G: [3]int{op.P[1][0], op.P[1][1], op.P[1][2]}, Origin: [3]int{op.P[2][0], op.P[2][1], op.P[2][2]}}
		u := VUUID(0)
		st, body, e := w.HTTP("POST", "/api/repos", jsonBody(map[string]interface{}{"alias": "lrepo", "description": "sim", "root": u}))
		if e != nil {
			return true, nil, e
		}
		if st != 200 {
			return true, nil, fmt.Errorf("%w: cannot create repo: %d %s", drv.ErrInfra, st, body)
		}
		x.D.Add(0, u, nil, "", 0)
		cfg := map[string]interface{}{"typename": "labelmap", "dataname": x.Inst, "BlockSize": fmt.Sprintf("%d,%d,%d", g.B, g.B, g.B)}
		x.MaxDown = int(op.M)
		if op.M > 0 {
			cfg["MaxDownresLevel"] = fmt.Sprint(op.M)
		} else {
			cfg["MaxDownresLevel"] = "0"
		}
		st, body, e = w.HTTP("POST", "/api/repo/"+u+"/instance", jsonBody(cfg))
		if e != nil {
			return true, nil, e
		}
		if st != 200 {
			return true, nil, fmt.Errorf("%w: cannot create labelmap instance: %d %s", drv.ErrInfra, st, body)
		}
		x.M = NewLabelModel(g)
		x.M.NewRoot(0)
		return true, nil, nil
	case "commit":
		if !x.D.Has(op.V) {
			x.Skipped++
			return true, nil, nil
		}
		n := x.D.Nodes[op.V]
		st, _, e := w.HTTP("POST", "/api/node/"+n.UUID+"/commit", jsonBody(map[string]interface{}{"note": "c"}))
		if e != nil {
			return true, nil, e
		}
		if st == 200 {
			n.Locked = true
		}
		return true, nil, nil
	case "newver", "branch":
		if !x.D.Has(op.V) || x.D.Has(int(op.N)) || !x.D.Nodes[op.V].Locked {
			x.Skipped++
			return true, nil, nil
		}
		p := x.D.Nodes[op.V]
		idx := int(op.N)
		body := map[string]interface{}{"uuid": VUUID(idx)}
		action, br := "newversion", p.Branch
		if op.Op == "branch" {
			action, br = "branch", op.Br
			body["branch"] = op.Br
		}
		st, _, e := w.HTTP("POST", "/api/node/"+p.UUID+"/"+action, jsonBody(body))
		if e != nil {
			return true, nil, e
		}
		if st != 200 {
			w.Stats.Probe("setup-rejected")
			return true, nil, nil
		}
		x.D.Add(idx, VUUID(idx), []int{op.V}, br, 0)
		x.M.NewChild(op.V, idx)
		return true, nil, nil
	case "restart":
		kind := op.Mode
		if kind == "" {
			kind = "clean"
		}
		// C03 clause for the label counters: what every version answers for maxlabel before the
		// stop (all background work settled) must be what it answers in the next lifetime.
		var before map[string]string
		if x.M != nil {
			if e := w.Barrier(); e != nil {
				return true, nil, e
			}
			var e error
			if before, e = x.counterSnapshot(); e != nil {
				return true, nil, e
			}
		}
		if _, e := w.Restart(kind); e != nil {
			return true, nil, e
		}
		if before != nil {
			after, e := x.counterSnapshot()
			if e != nil {
				return true, nil, e
			}
			for k, b := range before {
				if after[k] != b {
					return true, &drv.Violation{Prop: "C03", Oracle: "restart-snapshot", Sig: "label counter of a version reads differently after a restart (" + kind + ")",
						Detail: fmt.Sprintf("%s: before the %s restart %s, after it %s", k, kind, b, after[k])}, nil
				}
			}
			w.Stats.Probe("label-counters-compared-across-restart")
		}
		// the very first reads of the new lifetime, three clients at once: whichever of them makes the
		// server rebuild its supervoxel->body mapping, all of them must be answered from the complete mapping
		if x.M != nil {
			g := x.M.Geom
			best := -1
			for _, vi := range x.D.Sorted() {
				if lv := x.M.Versions[vi]; lv != nil && len(lv.Map) > 0 && (best < 0 || len(lv.Map) >= len(x.M.Versions[best].Map)) {
					best = vi
				}
			}
			if best >= 0 {
				lv := x.M.Versions[best]
				nx, ny, _ := g.Dims()
				off := g.Offset()
				var pts [][3]int
				var want []uint64
				seen := map[uint64]bool{}
				for i, sv := range lv.Vox {
					if b, mapped := lv.Map[sv]; mapped && !seen[sv] && len(pts) < 8 {
						seen[sv] = true
						pts = append(pts, [3]int{off[0] + i%nx, off[1] + (i/nx)%ny, off[2] + i/(nx*ny)})
						want = append(want, b)
					}
				}
				if len(pts) > 0 {
					pj, _ := json.Marshal(pts)
					var reqs []proto.Req
					for c := 1; c <= 3; c++ {
						reqs = append(reqs, proto.Req{Client: fmt.Sprintf("c%d", c), Kind: "http", Method: "GET", URL: x.base(best) + "/labels", Body: pj})
					}
					res, e := w.Batch(reqs, "barrier")
					if e != nil {
						return true, nil, e
					}
					if res.Wedged {
						return true, nil, w.ClassifyWedge("first concurrent label reads after a restart", res.Stacks)
					}
					// judged against the same read repeated once everything has settled (not against the model, which
					// the checks that crash operations re-synchronise only loosely)
					st2, settled, e := w.HTTP("GET", x.base(best)+"/labels", pj)
					if e != nil {
						return true, nil, e
					}
					for _, rp := range res.Resps {
						if rp.Status != st2 || string(rp.Body) != string(settled) {
							return true, &drv.Violation{Prop: "C03", Oracle: "first-reads-after-restart", Sig: "first concurrent label reads after a restart answer from a partly rebuilt mapping",
								Detail: fmt.Sprintf("three clients GET %s/labels %s right after the %s restart; client %s is answered %d %s, the same read once settled answers %d %s (model bodies %v)", x.base(best), pj, kind, rp.Client, rp.Status, trunc(rp.Body), st2, trunc(settled), want)}, nil
						}
					}
					w.Stats.Probe("first-concurrent-reads-after-restart")
				}
			}
		}
		return true, nil, nil
	}
	if x.M == nil || !x.D.Has(op.V) || x.D.Nodes[op.V].Locked {
		switch op.Op {
		case "ingest", "mutate", "lmerge", "cleave", "splitsv", "renumber", "nextlabel", "setnext", "setmax", "parlabel", "parsplitblocks":
			x.Skipped++
			return true, nil, nil
		}
		return false, nil, nil
	}
	lv := x.M.Versions[op.V]
	g := x.M.Geom
	switch op.Op {
	case "ingest", "mutate":
		// choose a block-aligned box; ingest only touches blocks never written in this lineage
		var b0, nb [3]int
		found := false
		for try := 0; try < 20 && !found; try++ {
			for a := 0; a < 3; a++ {
				nb[a] = 1 + r.IntN(g.G[a])
				b0[a] = r.IntN(g.G[a] - nb[a] + 1)
			}
			found = true
			if op.Op == "ingest" {
				for bz := 0; bz < nb[2] && found; bz++ {
					for by := 0; by < nb[1] && found; by++ {
						for bx := 0; bx < nb[0]; bx++ {
							if lv.Written[((b0[2]+bz)*g.G[1]+(b0[1]+by))*g.G[0]+b0[0]+bx] {
								found = false
								break
							}
						}
					}
				}
			}
		}
		if !found {
			x.Skipped++
			return true, nil, nil
		}
		nl := 1 + r.IntN(4)
		var labels []uint64
		existing := lv.SVSizes()
		var exSV []uint64
		for sv := range existing {
			exSV = append(exSV, sv)
		}
		sort.Slice(exSV, func(i, j int) bool { return exSV[i] < exSV[j] })
		// "ghosts": supervoxels merged into a body that still has voxels, whose own voxels have all been overwritten;
		// the mapping outlives the voxels, so writing the id again adds voxels to that body
		var ghosts []uint64
		bodyHas := map[uint64]bool{}
		for sv := range existing {
			bodyHas[lv.Body(sv)] = true
		}
		for sv, b := range lv.Map {
			if existing[sv] == 0 && bodyHas[b] {
				ghosts = append(ghosts, sv)
			}
		}
		sort.Slice(ghosts, func(i, j int) bool { return ghosts[i] < ghosts[j] })
		for i := 0; i < nl; i++ {
			if len(ghosts) > 0 && r.IntN(3) == 0 {
				labels = append(labels, pick(r, ghosts))
				w.Stats.Probe("ghost-supervoxel-rewritten")
			} else if len(exSV) > 0 && r.IntN(4) == 0 {
				labels = append(labels, pick(r, exSV)) // a supervoxel that continues into these blocks
			} else {
				l := x.newSV(r)
				x.M.reserve(l) // noted as present only for the voxels actually written (SetBox)
				labels = append(labels, l)
			}
		}
		dims := [3]int{nb[0] * g.B, nb[1] * g.B, nb[2] * g.B}
		data := genLayout(r, dims, labels, r.IntN(3) == 0)
		if r.IntN(6) == 0 { // a supervoxel confined to one 8^3 sub-block corner
			l := x.newSV(r)
			for z := 0; z < 3; z++ {
				for y := 0; y < 3; y++ {
					for xx := 0; xx < 3; xx++ {
						data[(z*dims[1]+y)*dims[0]+xx] = l
					}
				}
			}
			w.Stats.Probe("subblock-supervoxel")
		}
		if r.IntN(8) == 0 { // one block of pure background inside the box
			bx, by, bz := r.IntN(nb[0]), r.IntN(nb[1]), r.IntN(nb[2])
			for z := 0; z < g.B; z++ {
				for y := 0; y < g.B; y++ {
					for xx := 0; xx < g.B; xx++ {
						data[((bz*g.B+z)*dims[1]+by*g.B+y)*dims[0]+bx*g.B+xx] = 0
					}
				}
			}
			w.Stats.Probe("all-background-block-written")
		}
		url := x.boxURL(op.V, b0, nb)
		if op.Op == "mutate" {
			url += "?mutate=true"
		}
		st, body, e := x.post(url, u64sToBytes(data))
		if e != nil {
			return true, nil, e
		}
		if st != 200 {
			return true, x.viol("write-ack", "valid "+op.Op+" refused", fmt.Sprintf("POST %s -> %d %s", url, st, trunc(body))), nil
		}
		x.M.SetBox(op.V, b0, nb, data)
		w.Stats.Probe("label-" + op.Op)
		return true, nil, nil
	case "lmerge":
		bodies := sortedBodies(lv)
		if len(bodies) < 2 {
			x.Skipped++
			return true, nil, nil
		}
		r.Shuffle(len(bodies), func(i, j int) { bodies[i], bodies[j] = bodies[j], bodies[i] })
		k := 2
		if len(bodies) >= 3 && r.IntN(3) == 0 {
			k = 3
		}
		sel := bodies[:k]
		st, body, e := x.post(x.base(op.V)+"/merge", jsonU64s(sel))
		if e != nil {
			return true, nil, e
		}
		if st != 200 {
			return true, x.viol("write-ack", "valid merge refused", fmt.Sprintf("merge %v -> %d %s", sel, st, trunc(body))), nil
		}
		x.noteMut(parseMutResp(body))
		bs := lv.BodySVs()
		for _, from := range sel[1:] {
			for _, sv := range bs[from] {
				lv.Map[sv] = sel[0]
			}
			// a merged label that is not itself a supervoxel with voxels no longer maps anywhere
		}
		w.Stats.Probe("label-merge")
		return true, nil, nil
	case "parsplitblocks":
		// A supervoxel split and a block-level write that changes the same body's index, issued together.  The two do not
		// commute, so nothing is predicted afterwards: the batch must complete and the server must go on serving (C20).
		sizes := lv.SVSizes()
		var cands []uint64
		for sv, n := range sizes {
			if n >= 4 {
				cands = append(cands, sv)
			}
		}
		if len(cands) == 0 || g.G[0]*g.G[1]*g.G[2] < 2 {
			x.Skipped++
			return true, nil, nil
		}
		sort.Slice(cands, func(i, j int) bool { return cands[i] < cands[j] })
		sv := pick(r, cands)
		set := x.M.VoxelSet(op.V, sv, true)
		var pts [][3]int
		for p := range set {
			pts = append(pts, p)
		}
		sort.Slice(pts, func(i, j int) bool {
			a, b := pts[i], pts[j]
			if a[2] != b[2] {
				return a[2] < b[2]
			}
			if a[1] != b[1] {
				return a[1] < b[1]
			}
			return a[0] < b[0]
		})
		split := map[[3]int]bool{}
		for _, p := range pts[:len(pts)/2] {
			split[p] = true
		}
		st, blocks, e := w.HTTP("GET", fmt.Sprintf("%s/blocks/%d_%d_%d/%d_%d_%d?compression=blocks", x.base(op.V), g.G[0]*g.B, g.G[1]*g.B, g.G[2]*g.B, g.Origin[0]*g.B, g.Origin[1]*g.B, g.Origin[2]*g.B), nil)
		if e != nil {
			return true, nil, e
		}
		sbs := parseBlockStream(blocks)
		if st != 200 || len(sbs) < 2 {
			x.Skipped++
			return true, nil, nil
		}
		sort.Slice(sbs, func(i, j int) bool {
			a, b := sbs[i].c, sbs[j].c
			if a[2] != b[2] {
				return a[2] < b[2]
			}
			if a[1] != b[1] {
				return a[1] < b[1]
			}
			return a[0] < b[0]
		})
		// the block holding the supervoxel's first voxel trades places with another block
		want := [3]int32{int32(floorDiv(pts[0][0], g.B)), int32(floorDiv(pts[0][1], g.B)), int32(floorDiv(pts[0][2], g.B))}
		ia := -1
		for i := range sbs {
			if sbs[i].c == want {
				ia = i
			}
		}
		if ia < 0 {
			x.Skipped++
			return true, nil, nil
		}
		ib := (ia + 1 + r.IntN(len(sbs)-1)) % len(sbs)
		sbs[ia].c, sbs[ib].c = sbs[ib].c, sbs[ia].c
		reqs := []proto.Req{
			{Client: "c1", Kind: "http", Method: "POST", URL: fmt.Sprintf("%s/split-supervoxel/%d", x.base(op.V), sv), Body: EncodeRLEs(RunsOf(split))},
			{Client: "c2", Kind: "http", Method: "POST", URL: x.base(op.V) + "/blocks?compression=blocks", Body: encodeBlockStream(sbs, nil)},
		}
		res, e := w.Batch(reqs, "barrier")
		if e != nil {
			return true, nil, e
		}
		w.Stats.Probe("concurrent-split-and-block-write")
		if res.Wedged {
			return true, nil, w.ClassifyWedge("a supervoxel split concurrent with a block write to the same body\n"+descReqs(reqs), res.Stacks)
		}
		for j, rp := range res.Resps {
			if rp.Status == 200 {
				w.Stats.Probe(fmt.Sprintf("concurrent-split-and-block-write-acked-%d", j+1))
			} else if os.Getenv("VERIF_TRACE") != "" {
				fmt.Fprintf(os.Stderr, "parsplitblocks request %d -> %d %s\n", j+1, rp.Status, trunc(rp.Body))
			}
		}
		x.EndRun = true
		return true, nil, nil
	case "parlabel":
		// 2-3 label operations that commute, issued concurrently and interleaved by the scheduler:
		// cleaves of ONE body with disjoint supervoxel sets, merges of distinct bodies into ONE target,
		// or a cleave and a merge on disjoint bodies.  Every acknowledged one must be fully applied.
		bs := lv.BodySVs()
		bodies := sortedBodies(lv)
		type planned struct {
			req    proto.Req
			desc   string
			cleave []uint64 // supervoxels cleaved away (new body from the answer)
			from   []uint64 // bodies merged ...
			into   uint64   // ... into this one
			write  func()   // a voxel write: its effect on the model
		}
		var plan []planned
		cleaveOf := func(b uint64, svs []uint64, c string) planned {
			return planned{req: proto.Req{Client: c, Kind: "http", Method: "POST", URL: fmt.Sprintf("%s/cleave/%d", x.base(op.V), b), Body: jsonU64s(svs)},
				desc: fmt.Sprintf("cleave %v from body %d", svs, b), cleave: svs}
		}
		mergeOf := func(t uint64, from []uint64, c string) planned {
			return planned{req: proto.Req{Client: c, Kind: "http", Method: "POST", URL: x.base(op.V) + "/merge", Body: jsonU64s(append([]uint64{t}, from...))},
				desc: fmt.Sprintf("merge %v into %d", from, t), from: from, into: t}
		}
		var big []uint64
		for _, b := range bodies {
			if len(bs[b]) >= 3 {
				big = append(big, b)
			}
		}
		mode := r.IntN(6)
		if m := os.Getenv("VERIF_PARMODE"); m != "" { // diagnosis only
			mode = int(m[0] - '0')
		}
		chained := false
		switch {
		case mode == 5 && len(bodies) >= 2:
			// a merge into body T while a voxel write gives T's (or the merged body's) supervoxel more voxels in one block:
			// mapping and voxels are independent, so both must be fully applied
			sh := append([]uint64(nil), bodies...)
			r.Shuffle(len(sh), func(i, j int) { sh[i], sh[j] = sh[j], sh[i] })
			tgt, src := sh[0], sh[1]
			grow := pick(r, bs[pick(r, []uint64{tgt, src})])
			b0 := [3]int{r.IntN(g.G[0]), r.IntN(g.G[1]), r.IntN(g.G[2])}
			nb := [3]int{1, 1, 1}
			data := make([]uint64, g.B*g.B*g.B)
			i := 0
			changed := 0
			for z := 0; z < g.B; z++ {
				for y := 0; y < g.B; y++ {
					for xx := 0; xx < g.B; xx++ {
						data[i] = lv.Vox[g.idx(b0[0]*g.B+xx, b0[1]*g.B+y, b0[2]*g.B+z)]
						if (xx+2*y+3*z+int(op.N))%5 == 0 && data[i] != grow {
							data[i] = grow
							changed++
						}
						i++
					}
				}
			}
			if changed == 0 {
				x.Skipped++
				return true, nil, nil
			}
			v := op.V
			plan = append(plan, mergeOf(tgt, []uint64{src}, "c1"),
				planned{req: proto.Req{Client: "c2", Kind: "http", Method: "POST", URL: x.boxURL(v, b0, nb) + "?mutate=true", Body: u64sToBytes(data)},
					desc: fmt.Sprintf("write giving supervoxel %d %d more voxels in block %v", grow, changed, b0), write: func() { x.M.SetBox(v, b0, nb, data) }})
			w.Stats.Probe("concurrent-merge-and-voxel-write")
			x.LastPar = "merge and voxel write"
		case mode == 4 && len(bodies) >= 3:
			// chained merges: X into T while Y is merged into X.  Either Y ends up in T with X (Y->X took effect first),
			// or the merge into the vanished X is refused; both acknowledged means everything is in T.
			sh := append([]uint64(nil), bodies...)
			r.Shuffle(len(sh), func(i, j int) { sh[i], sh[j] = sh[j], sh[i] })
			plan = append(plan, mergeOf(sh[0], []uint64{sh[1]}, "c1"), mergeOf(sh[1], []uint64{sh[2]}, "c2"))
			chained = true
			w.Stats.Probe("concurrent-chained-merges")
			x.LastPar = "chained merges"
		case mode == 0 && len(big) > 0:
			b := pick(r, big)
			svs := append([]uint64(nil), bs[b]...)
			r.Shuffle(len(svs), func(i, j int) { svs[i], svs[j] = svs[j], svs[i] })
			n := 2
			if len(svs) >= 4 && r.IntN(2) == 0 {
				n = 3
			}
			for i := 0; i < n; i++ {
				plan = append(plan, cleaveOf(b, []uint64{svs[i]}, fmt.Sprintf("c%d", i+1)))
			}
			w.Stats.Probe("concurrent-cleaves-of-one-body")
			x.LastPar = "cleaves of one body"
		case mode == 1 && len(bodies) >= 3:
			sh := append([]uint64(nil), bodies...)
			r.Shuffle(len(sh), func(i, j int) { sh[i], sh[j] = sh[j], sh[i] })
			plan = append(plan, mergeOf(sh[0], []uint64{sh[1]}, "c1"), mergeOf(sh[0], []uint64{sh[2]}, "c2"))
			w.Stats.Probe("concurrent-merges-into-one-body")
			x.LastPar = "merges into one body"
		case mode == 3 && len(big) > 0 && len(bodies) >= 2:
			// a cleave of body T and a merge INTO body T
			b := pick(r, big)
			var others []uint64
			for _, o := range bodies {
				if o != b {
					others = append(others, o)
				}
			}
			plan = append(plan, cleaveOf(b, []uint64{bs[b][r.IntN(len(bs[b]))]}, "c1"), mergeOf(b, []uint64{pick(r, others)}, "c2"))
			w.Stats.Probe("concurrent-cleave-of-and-merge-into-one-body")
			x.LastPar = "cleave of and merge into one body"
		default:
			if len(big) == 0 || len(bodies) < 3 {
				x.Skipped++
				return true, nil, nil
			}
			b := pick(r, big)
			var others []uint64
			for _, o := range bodies {
				if o != b {
					others = append(others, o)
				}
			}
			r.Shuffle(len(others), func(i, j int) { others[i], others[j] = others[j], others[i] })
			plan = append(plan, cleaveOf(b, []uint64{bs[b][r.IntN(len(bs[b]))]}, "c1"), mergeOf(others[0], []uint64{others[1]}, "c2"))
			w.Stats.Probe("concurrent-cleave-and-merge")
			x.LastPar = "cleave and merge of other bodies"
		}
		if len(plan) == 0 {
			x.Skipped++
			return true, nil, nil
		}
		var reqs []proto.Req
		for _, pl := range plan {
			reqs = append(reqs, pl.req)
		}
		res, e := w.Batch(reqs, "barrier")
		if e != nil {
			return true, nil, e
		}
		if res.Wedged {
			return true, nil, w.ClassifyWedge("concurrent label operations\n"+descReqs(reqs), res.Stacks)
		}
		// ids are handed out in scheduler order, not in the order the clients are listed: they are judged
		// sorted (unique and above everything issued before), the model effects commute
		var newLabels, mutIDs []uint64
		for i, rp := range res.Resps {
			pl := plan[i]
			if rp.Status != 200 && chained && i == 1 {
				w.Stats.Probe("chained-merge-into-vanished-body-refused")
				continue
			}
			if rp.Status != 200 {
				return true, x.viol("write-ack", "valid concurrent label operation refused", fmt.Sprintf("%s (issued together with %d others) -> %d %s", pl.desc, len(plan)-1, rp.Status, trunc(rp.Body))), nil
			}
			if pl.write != nil {
				pl.write()
				continue
			}
			resp := parseMutResp(rp.Body)
			if id, ok := resp["MutationID"]; ok {
				mutIDs = append(mutIDs, id)
			}
			if pl.cleave != nil {
				nl := resp["CleavedLabel"]
				if nl == 0 {
					return true, x.viol("cleave-response", "cleave response lacks CleavedLabel", trunc(rp.Body)), nil
				}
				newLabels = append(newLabels, nl)
				for _, sv := range pl.cleave {
					lv.Map[sv] = nl
				}
			} else {
				for _, f := range pl.from {
					for _, sv := range bs[f] {
						lv.Map[sv] = pl.into
					}
				}
			}
		}
		if chained && res.Resps[1].Status == 200 {
			// Y->X was acknowledged, so it preceded X->T: everything that maps to X is in T now
			for sv, b := range lv.Map {
				if b == plan[0].from[0] {
					lv.Map[sv] = plan[0].into
				}
			}
			w.Stats.Probe("chained-merges-both-acknowledged")
		}
		sort.Slice(newLabels, func(i, j int) bool { return newLabels[i] < newLabels[j] })
		sort.Slice(mutIDs, func(i, j int) bool { return mutIDs[i] < mutIDs[j] })
		for _, nl := range newLabels {
			if v := x.noteAlloc(nl, "cleave"); v != nil {
				return true, v, nil
			}
		}
		x.MutIDs = append(x.MutIDs, mutIDs...)
		w.Stats.Probe("label-parlabel")
		return true, nil, nil
	case "cleave":
		bs := lv.BodySVs()
		var cands []uint64
		for b, svs := range bs {
			if len(svs) >= 2 {
				cands = append(cands, b)
			}
		}
		if len(cands) == 0 {
			x.Skipped++
			return true, nil, nil
		}
		sort.Slice(cands, func(i, j int) bool { return cands[i] < cands[j] })
		b := pick(r, cands)
		svs := append([]uint64(nil), bs[b]...)
		r.Shuffle(len(svs), func(i, j int) { svs[i], svs[j] = svs[j], svs[i] })
		k := 1 + r.IntN(len(svs)-1)
		sel := svs[:k]
		st, body, e := x.post(fmt.Sprintf("%s/cleave/%d", x.base(op.V), b), jsonU64s(sel))
		if e != nil {
			return true, nil, e
		}
		if st != 200 {
			return true, x.viol("write-ack", "valid cleave refused", fmt.Sprintf("cleave %d %v -> %d %s", b, sel, st, trunc(body))), nil
		}
		resp := parseMutResp(body)
		nl, ok := resp["CleavedLabel"]
		if !ok || nl == 0 {
			return true, x.viol("cleave-response", "cleave response lacks CleavedLabel", trunc(body)), nil
		}
		if v := x.noteAlloc(nl, "cleave"); v != nil {
			return true, v, nil
		}
		x.noteMut(resp)
		for _, sv := range sel {
			lv.Map[sv] = nl
		}
		w.Stats.Probe("label-cleave")
		return true, nil, nil
	case "splitsv":
		sizes := lv.SVSizes()
		var cands []uint64
		for sv, n := range sizes {
			if n >= 2 {
				cands = append(cands, sv)
			}
		}
		if len(cands) == 0 {
			x.Skipped++
			return true, nil, nil
		}
		sort.Slice(cands, func(i, j int) bool { return cands[i] < cands[j] })
		sv := pick(r, cands)
		set := x.M.VoxelSet(op.V, sv, true)
		var pts [][3]int
		for p := range set {
			pts = append(pts, p)
		}
		sort.Slice(pts, func(i, j int) bool {
			a, b := pts[i], pts[j]
			if a[2] != b[2] {
				return a[2] < b[2]
			}
			if a[1] != b[1] {
				return a[1] < b[1]
			}
			return a[0] < b[0]
		})
		split := map[[3]int]bool{}
		mode := r.IntN(5)
		switch mode {
		case 0: // a single voxel
			split[pts[r.IntN(len(pts))]] = true
			w.Stats.Probe("split-single-voxel")
		case 1: // first half in scan order
			for _, p := range pts[:len(pts)/2] {
				split[p] = true
			}
		case 2: // everything in one block (supervoxel vanishes from / is confined to that block)
			bc := [3]int{floorDiv(pts[0][0], g.B), floorDiv(pts[0][1], g.B), floorDiv(pts[0][2], g.B)}
			for _, p := range pts {
				if floorDiv(p[0], g.B) == bc[0] && floorDiv(p[1], g.B) == bc[1] && floorDiv(p[2], g.B) == bc[2] {
					split[p] = true
				}
			}
			w.Stats.Probe("split-whole-block-part")
		case 3: // scattered
			for _, p := range pts {
				if (p[0]*7+p[1]*13+p[2]*29+int(op.N))%3 == 0 {
					split[p] = true
				}
			}
		default: // half space along x
			mid := pts[len(pts)/2][0]
			for _, p := range pts {
				if p[0] < mid {
					split[p] = true
				}
			}
		}
		if len(split) == 0 || len(split) == len(pts) {
			x.Skipped++
			return true, nil, nil
		}
		// sometimes the posted sparse volume also covers voxels outside the supervoxel
		// (documented: "any region that falls out of the given supervoxel will be ignored")
		posted := split
		if r.IntN(5) == 0 {
			posted = map[[3]int]bool{}
			for p := range split {
				posted[p] = true
			}
			off := g.Offset()
			nx, ny, nz := g.Dims()
			added := 0
			for _, p := range pts {
				for _, d := range [][3]int{{1, 0, 0}, {-1, 0, 0}, {0, 1, 0}, {0, 0, 1}} {
					q := [3]int{p[0] + d[0], p[1] + d[1], p[2] + d[2]}
					lx, ly, lz := q[0]-off[0], q[1]-off[1], q[2]-off[2]
					if lx < 0 || ly < 0 || lz < 0 || lx >= nx || ly >= ny || lz >= nz || set[q] || posted[q] {
						continue
					}
					if added < 40 {
						posted[q] = true
						added++
					}
				}
			}
			if added > 0 {
				w.Stats.Probe("split-volume-partly-outside-supervoxel")
			}
		}
		runs := RunsOf(posted)
		st, body, e := x.post(fmt.Sprintf("%s/split-supervoxel/%d", x.base(op.V), sv), EncodeRLEs(runs))
		if e != nil {
			return true, nil, e
		}
		if st != 200 {
			if len(posted) != len(split) {
				// refused: then nothing may have changed (checked by the sweep that follows)
				w.Stats.Probe("split-partly-outside-refused")
				return true, nil, nil
			}
			return true, x.viol("write-ack", "valid split-supervoxel refused", fmt.Sprintf("split-supervoxel %d (%d of %d voxels) -> %d %s", sv, len(split), len(pts), st, trunc(body))), nil
		}
		resp := parseMutResp(body)
		a, b := resp["SplitSupervoxel"], resp["RemainSupervoxel"]
		if a == 0 || b == 0 || a == b {
			return true, x.viol("split-response", "split-supervoxel response lacks two new ids", trunc(body)), nil
		}
		for _, nl := range []uint64{a, b} {
			if v := x.noteAlloc(nl, "split-supervoxel"); v != nil {
				return true, v, nil
			}
		}
		x.noteMut(resp)
		body0 := lv.Body(sv)
		off := g.Offset()
		for _, p := range pts {
			i := g.idx(p[0]-off[0], p[1]-off[1], p[2]-off[2])
			if split[p] {
				lv.Vox[i] = a
			} else {
				lv.Vox[i] = b
			}
		}
		lv.Map[a], lv.Map[b] = body0, body0
		delete(lv.Map, sv)
		w.Stats.Probe("label-splitsv")
		return true, nil, nil
	case "renumber":
		bodies := sortedBodies(lv)
		if len(bodies) == 0 {
			x.Skipped++
			return true, nil, nil
		}
		old := pick(r, bodies)
		nl := x.M.MaxEver + 100 + uint64(r.IntN(50))
		if svs := lv.BodySVs()[old]; r.IntN(4) == 0 && len(svs) > 0 {
			// onto the id of one of the body's own supervoxels, if no body carries that id now
			cand := pick(r, svs)
			free := cand != old
			for _, b := range bodies {
				if b == cand {
					free = false
				}
			}
			if free {
				nl = cand
				w.Stats.Probe("renumber-onto-own-supervoxel-id")
			}
		}
		st, body, e := x.post(x.base(op.V)+"/renumber", jsonU64s([]uint64{nl, old}))
		if e != nil {
			return true, nil, e
		}
		if st != 200 {
			return true, x.viol("write-ack", "valid renumber refused", fmt.Sprintf("renumber %d->%d -> %d %s", old, nl, st, trunc(body))), nil
		}
		x.M.note(nl)
		for _, sv := range lv.BodySVs()[old] {
			lv.Map[sv] = nl
		}
		w.Stats.Probe("label-renumber")
		return true, nil, nil
	case "setmax":
		// POST maxlabel/<n>: n must exceed this version's current max; often below the repo-wide max
		st, b, e := w.HTTP("GET", x.base(op.V)+"/maxlabel", nil)
		if e != nil {
			return true, nil, e
		}
		var cur struct{ MaxLabel uint64 }
		if st != 200 || json.Unmarshal(b, &cur) != nil {
			return true, nil, nil
		}
		n := cur.MaxLabel + 1 + uint64(r.IntN(3))
		st, body, e := x.post(fmt.Sprintf("%s/maxlabel/%d", x.base(op.V), n), nil)
		if e != nil {
			return true, nil, e
		}
		if st == 200 {
			x.M.note(n)
			w.Stats.Probe("label-setmax")
		} else {
			_ = body
			w.Stats.Probe("label-setmax-refused")
		}
		return true, nil, nil
	case "nextlabel":
		if r.IntN(8) == 0 {
			// a count of 0 or one that would wrap the 64-bit counter: must be refused, never move the counter
			bad := pick(r, []string{"0", "18446744073709551615", "18446744073709551000", "9223372036854775808"})
			st, body, e := x.post(fmt.Sprintf("%s/nextlabel/%s", x.base(op.V), bad), nil)
			if e != nil {
				return true, nil, e
			}
			var got struct{ Start, End uint64 }
			cnt, _ := strconv.ParseUint(bad, 10, 64)
			// an enormous count is legal as long as the range handed out is real: with the counter
			// still at 0 even 2^64-1 labels fit ([1, 2^64-1]); what must never be answered is a
			// count of zero, an end below the start, or a range of another length than asked for
			if st == 200 && (bad == "0" || json.Unmarshal(body, &got) != nil || got.End < got.Start || got.End-got.Start+1 != cnt) {
				return true, &drv.Violation{Prop: "C12", Oracle: "label-counter-wrap", Sig: "nextlabel accepts a count of zero or one that wraps the label counter",
					Detail: fmt.Sprintf("POST nextlabel/%s -> 200 %s", bad, trunc(body))}, nil
			}
			if st == 200 {
				x.Repositioned = true // a legal but enormous jump: later labels are above it or refused
			}
			w.Stats.Probe("label-nextlabel-extreme-count")
			return true, nil, nil
		}
		n := 1 + int(op.N%3)
		st, body, e := x.post(fmt.Sprintf("%s/nextlabel/%d", x.base(op.V), n), nil)
		if e != nil {
			return true, nil, e
		}
		if st != 200 {
			return true, x.viol("write-ack", "valid nextlabel refused", fmt.Sprintf("-> %d %s", st, trunc(body))), nil
		}
		resp := parseMutResp(body)
		s, e2 := resp["start"], resp["end"]
		if s == 0 || e2 < s || int(e2-s) != n-1 {
			return true, x.viol("nextlabel-response", "nextlabel response malformed", trunc(body)), nil
		}
		for l := s; l <= e2; l++ {
			if v := x.noteAlloc(l, "nextlabel"); v != nil {
				return true, v, nil
			}
		}
		w.Stats.Probe("label-nextlabel")
		return true, nil, nil
	}
	return false, nil, nil
}

// counterSnapshot reads GET maxlabel of every version (nextlabel is repo-wide and covered by C12).
func (x *LabelExec) counterSnapshot() (map[string]string, error) {
	out := map[string]string{}
	for _, v := range x.D.Sorted() {
		u := x.base(v) + "/maxlabel"
		st, b, err := x.W.HTTP("GET", u, nil)
		if err != nil {
			return nil, err
		}
		out[fmt.Sprintf("version %d GET maxlabel", v)] = fmt.Sprintf("%d %s", st, strings.TrimSpace(string(b)))
	}
	return out, nil
}

func jsonU64s(v []uint64) []byte {
	var sb strings.Builder
	sb.WriteByte('[')
	for i, x := range v {
		if i > 0 {
			sb.WriteByte(',')
		}
		sb.WriteString(strconv.FormatUint(x, 10))
	}
	sb.WriteByte(']')
	return []byte(sb.String())
}

func sortedBodies(lv *LabelVersion) []uint64 {
	var out []uint64
	for b := range lv.BodySVs() {
		out = append(out, b)
	}
	sort.Slice(out, func(i, j int) bool { return out[i] < out[j] })
	return out
}

// noteAlloc: a label handed out by the server must be new and (C12) greater than every label
// present in the volume at any version and than every label handed out before.
func (x *LabelExec) noteAlloc(l uint64, how string) *drv.Violation {
	for _, p := range x.AllocLabels {
		if p == l {
			return &drv.Violation{Prop: "C12", Oracle: "label-unique", Sig: "allocated label issued twice (" + how + ")", Detail: fmt.Sprintf("label %d handed out again by %s; earlier allocations %v", l, how, x.AllocLabels)}
		}
	}
	if n := len(x.AllocLabels); n > 0 && l <= x.AllocLabels[n-1] && !x.Repositioned {
		return &drv.Violation{Prop: "C12", Oracle: "label-monotone", Sig: "allocated label not increasing (" + how + ")", Detail: fmt.Sprintf("label %d after %v", l, x.AllocLabels)}
	}
	if l <= x.M.MaxEver && !x.Repositioned {
		return &drv.Violation{Prop: "C12", Oracle: "label-above-present", Sig: "allocated label not above the labels present (" + how + ")", Detail: fmt.Sprintf("label %d handed out by %s, but label %d is present in (or was handed out for) this volume", l, how, x.M.MaxEver)}
	}
	x.AllocLabels = append(x.AllocLabels, l)
	x.M.note(l)
	return nil
}

func (x *LabelExec) noteMut(resp map[string]uint64) {
	if id, ok := resp["MutationID"]; ok {
		x.MutIDs = append(x.MutIDs, id)
	}
}

// CheckMutIDs: mutation ids are never issued twice and strictly increase in issue order.
func (x *LabelExec) CheckMutIDs() *drv.Violation {
	for i := 1; i < len(x.MutIDs); i++ {
		if x.MutIDs[i] <= x.MutIDs[i-1] {
			return &drv.Violation{Prop: "C12", Oracle: "mutation-id-monotone", Sig: "mutation id not increasing", Detail: fmt.Sprintf("mutation ids in issue order: %v", x.MutIDs)}
		}
	}
	return nil
}

// ---- comparison of every read endpoint with the model ----

func (x *LabelExec) CheckVersion(v int, deep bool) (*drv.Violation, error) {
	if x.M == nil || !x.D.Has(v) {
		return nil, nil
	}
	lv := x.M.Versions[v]
	g := x.M.Geom
	nx, ny, nz := g.Dims()
	off := g.Offset()
	base := x.base(v)
	vdesc := fmt.Sprintf("version %d(%s)", v, x.uuid(v)[:4])
	full := fmt.Sprintf("%d_%d_%d/%d_%d_%d", nx, ny, nz, off[0], off[1], off[2])
	bs := lv.BodySVs()
	svSizes := lv.SVSizes()
	bodies := sortedBodies(lv)
	var allSV []uint64
	for sv := range svSizes {
		allSV = append(allSV, sv)
	}
	sort.Slice(allSV, func(i, j int) bool { return allSV[i] < allSV[j] })

	type chk struct {
		name string
		f    func(r proto.Resp) string
	}
	var reqs []proto.Req
	var chks []chk
	add := func(rq proto.Req, name string, f func(r proto.Resp) string) {
		reqs = append(reqs, rq)
		chks = append(chks, chk{name, f})
	}
	getB := func(url string, body []byte) proto.Req {
		return proto.Req{Client: "c0", Kind: "http", Method: "GET", URL: url, Body: body}
	}
	// raw volumes
	add(drv.GET(base+"/raw/0_1_2/"+full+"?supervoxels=true"), "raw?supervoxels=true", func(r proto.Resp) string {
		return cmpVolume(r, lv.Vox, g)
	})
	mapped := lv.Mapped()
	add(drv.GET(base+"/raw/0_1_2/"+full), "raw (mapped)", func(r proto.Resp) string { return cmpVolume(r, mapped, g) })
	// block streams
	add(drv.GET(base+"/blocks/"+full+"?compression=uncompressed&supervoxels=true"), "blocks?supervoxels=true", func(r proto.Resp) string {
		return cmpBlocks(r, lv.Vox, lv.Written, g)
	})
	add(drv.GET(base+"/blocks/"+full+"?compression=uncompressed"), "blocks (mapped)", func(r proto.Resp) string {
		return cmpBlocks(r, mapped, lv.Written, g)
	})
	// mutation-log reader (streams the versions' binary log while a write handle may be open)
	if len(bodies) > 0 {
		add(drv.GET(fmt.Sprintf("%s/history/%d/%s/%s", base, bodies[0], x.uuid(0), x.uuid(v))), "history", func(r proto.Resp) string {
			if r.Status >= 500 {
				return fmt.Sprintf("status %d %s", r.Status, trunc(r.Body))
			}
			return ""
		})
	}
	// label lists
	add(drv.GET(base+"/listlabels"), "listlabels", func(r proto.Resp) string {
		if r.Status != 200 {
			return fmt.Sprintf("status %d %s", r.Status, trunc(r.Body))
		}
		got := bytesToU64s(r.Body)
		if !eqU64(got, bodies) {
			return fmt.Sprintf("got %v, scan of the voxels gives bodies %v", got, bodies)
		}
		return ""
	})
	add(drv.GET(base+"/existing-labels"), "existing-labels", func(r proto.Resp) string {
		var got []uint64
		if r.Status != 200 || json.Unmarshal(r.Body, &got) != nil {
			return fmt.Sprintf("status %d %s", r.Status, trunc(r.Body))
		}
		sort.Slice(got, func(i, j int) bool { return got[i] < got[j] })
		if !eqU64(got, bodies) {
			return fmt.Sprintf("got %v, scan of the voxels gives bodies %v", got, bodies)
		}
		return ""
	})
	// sizes of all bodies plus absent labels
	probe := append(append([]uint64(nil), bodies...), x.M.MaxEver+7, 0)
	for _, sv := range allSV {
		if _, isBody := bs[sv]; !isBody {
			probe = append(probe, sv) // a supervoxel id that is not a body label
			break
		}
	}
	add(getB(base+"/sizes", jsonU64s(probe)), "sizes", func(r proto.Resp) string {
		var got []uint64
		if r.Status != 200 || json.Unmarshal(r.Body, &got) != nil || len(got) != len(probe) {
			return fmt.Sprintf("status %d %s", r.Status, trunc(r.Body))
		}
		for i, l := range probe {
			var want uint64
			for _, sv := range bs[l] {
				want += svSizes[sv]
			}
			if got[i] != want {
				return fmt.Sprintf("label %d: size %d, voxel scan gives %d", l, got[i], want)
			}
		}
		return ""
	})
	add(getB(base+"/sizes?supervoxels=true", jsonU64s(allSV)), "sizes?supervoxels=true", func(r proto.Resp) string {
		var got []uint64
		if r.Status != 200 || json.Unmarshal(r.Body, &got) != nil || len(got) != len(allSV) {
			return fmt.Sprintf("status %d %s", r.Status, trunc(r.Body))
		}
		for i, sv := range allSV {
			if got[i] != svSizes[sv] {
				return fmt.Sprintf("supervoxel %d: size %d, voxel scan gives %d", sv, got[i], svSizes[sv])
			}
		}
		return ""
	})
	// mapping of every supervoxel and of an unknown one
	mq := append(append([]uint64(nil), allSV...), x.M.MaxEver+9)
	add(getB(base+"/mapping", jsonU64s(mq)), "mapping", func(r proto.Resp) string {
		var got []uint64
		if r.Status != 200 || json.Unmarshal(r.Body, &got) != nil || len(got) != len(mq) {
			return fmt.Sprintf("status %d %s", r.Status, trunc(r.Body))
		}
		for i, sv := range mq {
			want := uint64(0)
			if _, ok := svSizes[sv]; ok {
				want = lv.Body(sv)
			}
			if got[i] != want {
				return fmt.Sprintf("supervoxel %d maps to %d, model says %d", sv, got[i], want)
			}
		}
		return ""
	})
	add(drv.GET(base+"/mappings"), "mappings", func(r proto.Resp) string {
		if r.Status != 200 {
			return fmt.Sprintf("status %d %s", r.Status, trunc(r.Body))
		}
		listed := map[uint64]uint64{}
		for _, ln := range strings.Split(strings.TrimSpace(string(r.Body)), "\n") {
			f := strings.Fields(ln)
			if len(f) != 2 {
				continue
			}
			a, _ := strconv.ParseUint(f[0], 10, 64)
			b, _ := strconv.ParseUint(f[1], 10, 64)
			listed[a] = b
		}
		for _, sv := range allSV {
			want := lv.Body(sv)
			got, ok := listed[sv]
			if ok && got != want {
				return fmt.Sprintf("mappings lists %d -> %d, model says %d", sv, got, want)
			}
			if !ok && want != sv {
				return fmt.Sprintf("mappings omits %d -> %d", sv, want)
			}
		}
		return ""
	})
	// point lookups: a few voxels inside, on block borders and outside
	var pts [][3]int
	rp := drv.NewRNG(uint64(v)*977 + uint64(len(allSV)))
	for i := 0; i < 10; i++ {
		pts = append(pts, [3]int{off[0] + rp.IntN(nx), off[1] + rp.IntN(ny), off[2] + rp.IntN(nz)})
	}
	pts = append(pts, [3]int{off[0] + g.B - 1, off[1], off[2]}, [3]int{off[0] + nx - 1, off[1] + ny - 1, off[2] + nz - 1}, [3]int{off[0] + nx + 3, off[1], off[2]}, [3]int{off[0] - 1, off[1] - 1, off[2] - 1})
	pj, _ := json.Marshal(pts)
	want := func(p [3]int, sv bool) uint64 {
		lx, ly, lz := p[0]-off[0], p[1]-off[1], p[2]-off[2]
		if lx < 0 || ly < 0 || lz < 0 || lx >= nx || ly >= ny || lz >= nz {
			return 0
		}
		s := lv.Vox[g.idx(lx, ly, lz)]
		if sv {
			return s
		}
		return lv.Body(s)
	}
	for _, svq := range []bool{false, true} {
		svq := svq
		q := ""
		if svq {
			q = "?supervoxels=true"
		}
		add(getB(base+"/labels"+q, pj), "labels"+q, func(r proto.Resp) string {
			var got []uint64
			if r.Status != 200 || json.Unmarshal(r.Body, &got) != nil || len(got) != len(pts) {
				return fmt.Sprintf("status %d %s", r.Status, trunc(r.Body))
			}
			for i, p := range pts {
				if got[i] != want(p, svq) {
					return fmt.Sprintf("point %v: %d, voxel scan gives %d", p, got[i], want(p, svq))
				}
			}
			return ""
		})
	}
	p0 := pts[0]
	add(drv.GET(fmt.Sprintf("%s/label/%d_%d_%d", base, p0[0], p0[1], p0[2])), "label/<pt>", func(r proto.Resp) string {
		resp := parseMutResp(r.Body)
		if r.Status != 200 || resp["Label"] != want(p0, false) {
			return fmt.Sprintf("point %v: %d %s, voxel scan gives %d", p0, r.Status, trunc(r.Body), want(p0, false))
		}
		return ""
	})
	// per body
	lim := bodies
	if !deep && len(lim) > 4 {
		lim = lim[:4]
	}
	for _, b := range lim {
		b := b
		var bsize uint64
		for _, sv := range bs[b] {
			bsize += svSizes[sv]
		}
		add(drv.GET(fmt.Sprintf("%s/size/%d", base, b)), "size/<label>", func(r proto.Resp) string {
			if r.Status != 200 || parseMutResp(r.Body)["voxels"] != bsize {
				return fmt.Sprintf("body %d: %d %s, voxel scan gives %d", b, r.Status, trunc(r.Body), bsize)
			}
			return ""
		})
		add(drv.GET(fmt.Sprintf("%s/supervoxels/%d", base, b)), "supervoxels/<label>", func(r proto.Resp) string {
			var got []uint64
			if r.Status != 200 || json.Unmarshal(r.Body, &got) != nil {
				return fmt.Sprintf("body %d: %d %s", b, r.Status, trunc(r.Body))
			}
			sort.Slice(got, func(i, j int) bool { return got[i] < got[j] })
			if !eqU64(got, bs[b]) {
				return fmt.Sprintf("body %d: supervoxels %v, voxel scan + mapping gives %v", b, got, bs[b])
			}
			return ""
		})
		add(drv.GET(fmt.Sprintf("%s/supervoxel-sizes/%d", base, b)), "supervoxel-sizes/<label>", func(r proto.Resp) string {
			var got struct {
				Supervoxels []uint64 `json:"supervoxels"`
				Sizes       []uint64 `json:"sizes"`
			}
			if r.Status != 200 || json.Unmarshal(r.Body, &got) != nil || len(got.Supervoxels) != len(got.Sizes) {
				return fmt.Sprintf("body %d: %d %s", b, r.Status, trunc(r.Body))
			}
			if len(got.Supervoxels) != len(bs[b]) {
				return fmt.Sprintf("body %d: %d supervoxels listed, scan gives %v", b, len(got.Supervoxels), bs[b])
			}
			for i, sv := range got.Supervoxels {
				if svSizes[sv] != got.Sizes[i] || lv.Body(sv) != b {
					return fmt.Sprintf("body %d: supervoxel %d size %d, scan gives %d (body %d)", b, sv, got.Sizes[i], svSizes[sv], lv.Body(sv))
				}
			}
			return ""
		})
		set := x.M.VoxelSet(v, b, false)
		add(drv.GET(fmt.Sprintf("%s/sparsevol/%d?format=srles", base, b)), "sparsevol?format=srles", func(r proto.Resp) string {
			return cmpRuns(r, 0, set, fmt.Sprintf("body %d", b))
		})
		add(drv.GET(fmt.Sprintf("%s/sparsevol/%d", base, b)), "sparsevol (rles)", func(r proto.Resp) string {
			return cmpRuns(r, 12, set, fmt.Sprintf("body %d", b))
		})
		// bounded forms: voxel bounds for GET (exact), block-expanded bounds for HEAD
		if len(set) > 0 {
			var zs []int
			for p := range set {
				zs = append(zs, p[2])
			}
			sort.Ints(zs)
			zlo, zhi := zs[len(zs)/3], zs[len(zs)*2/3]
			inb := map[[3]int]bool{}
			for p := range set {
				if p[2] >= zlo && p[2] <= zhi {
					inb[p] = true
				}
			}
			add(drv.GET(fmt.Sprintf("%s/sparsevol/%d?format=srles&minz=%d&maxz=%d", base, b, zlo, zhi)), "sparsevol with z bounds", func(r proto.Resp) string {
				return cmpRuns(r, 0, inb, fmt.Sprintf("body %d, z in [%d,%d]", b, zlo, zhi))
			})
			// HEAD: inside the body's z range -> 200; a slab of blocks beyond it -> 204
			add(proto.Req{Client: "c0", Kind: "http", Method: "HEAD", URL: fmt.Sprintf("%s/sparsevol/%d?minz=%d&maxz=%d", base, b, zlo, zhi)}, "HEAD sparsevol with z bounds", func(r proto.Resp) string {
				if r.Status != 200 {
					return fmt.Sprintf("body %d has voxels with z in [%d,%d] but HEAD answers %d", b, zlo, zhi, r.Status)
				}
				return ""
			})
			far := (floorDiv(zs[len(zs)-1], g.B) + 2) * g.B
			add(proto.Req{Client: "c0", Kind: "http", Method: "HEAD", URL: fmt.Sprintf("%s/sparsevol/%d?minz=%d&maxz=%d", base, b, far, far+g.B-1)}, "HEAD sparsevol beyond the body", func(r proto.Resp) string {
				if r.Status != 204 {
					return fmt.Sprintf("body %d has no voxel with z >= %d but HEAD with minz=%d answers %d", b, far, far, r.Status)
				}
				return ""
			})
		}
		blocks := map[[3]int]bool{}
		var mn, mxp [3]int
		first := true
		for p := range set {
			bc := [3]int{floorDiv(p[0], g.B), floorDiv(p[1], g.B), floorDiv(p[2], g.B)}
			blocks[bc] = true
			for a := 0; a < 3; a++ {
				lo, hi := bc[a]*g.B, bc[a]*g.B+g.B-1
				if first || lo < mn[a] {
					mn[a] = lo
				}
				if first || hi > mxp[a] {
					mxp[a] = hi
				}
			}
			first = false
		}
		add(drv.GET(fmt.Sprintf("%s/sparsevol-coarse/%d", base, b)), "sparsevol-coarse", func(r proto.Resp) string {
			return cmpRuns(r, 12, blocks, fmt.Sprintf("body %d (block coordinates)", b))
		})
		add(drv.GET(fmt.Sprintf("%s/sparsevol-size/%d", base, b)), "sparsevol-size", func(r proto.Resp) string {
			var got struct {
				Voxels    uint64 `json:"voxels"`
				NumBlocks int    `json:"numblocks"`
				MinVoxel  [3]int `json:"minvoxel"`
				MaxVoxel  [3]int `json:"maxvoxel"`
			}
			if r.Status != 200 || json.Unmarshal(r.Body, &got) != nil {
				return fmt.Sprintf("body %d: %d %s", b, r.Status, trunc(r.Body))
			}
			if got.Voxels != bsize || got.NumBlocks != len(blocks) || got.MinVoxel != mn || got.MaxVoxel != mxp {
				return fmt.Sprintf("body %d: %s, voxel scan gives voxels=%d numblocks=%d min=%v max=%v", b, trunc(r.Body), bsize, len(blocks), mn, mxp)
			}
			return ""
		})
		add(drv.GET(fmt.Sprintf("%s/index/%d", base, b)), "index/<label>", func(r proto.Resp) string {
			if r.Status != 200 {
				return fmt.Sprintf("body %d: status %d %s", b, r.Status, trunc(r.Body))
			}
			idx, err := decodeLabelIndex(r.Body)
			if err != "" {
				return fmt.Sprintf("body %d: %s", b, err)
			}
			// expected: per block, per supervoxel counts
			want := map[[3]int]map[uint64]uint32{}
			for _, sv := range bs[b] {
				for p := range x.M.VoxelSet(v, sv, true) {
					bc := [3]int{floorDiv(p[0], g.B), floorDiv(p[1], g.B), floorDiv(p[2], g.B)}
					if want[bc] == nil {
						want[bc] = map[uint64]uint32{}
					}
					want[bc][sv]++
				}
			}
			if idx.Label != b {
				return fmt.Sprintf("body %d: index carries label %d", b, idx.Label)
			}
			for bc, m := range want {
				got := idx.Blocks[bc]
				for sv, n := range m {
					if got[sv] != n {
						return fmt.Sprintf("body %d block %v supervoxel %d: index count %d, voxel scan gives %d", b, bc, sv, got[sv], n)
					}
				}
			}
			for bc, m := range idx.Blocks {
				for sv, n := range m {
					if n != 0 && want[bc][sv] == 0 {
						return fmt.Sprintf("body %d: index lists %d voxels of supervoxel %d in block %v where the voxel scan finds none", b, n, sv, bc)
					}
				}
			}
			return ""
		})
	}
	// a label that does not exist must be reported as such
	ghost := x.M.MaxEver + 11
	add(drv.GET(fmt.Sprintf("%s/size/%d", base, ghost)), "size/<absent label>", func(r proto.Resp) string {
		if r.Status == 200 {
			return fmt.Sprintf("absent label %d: 200 %s", ghost, trunc(r.Body))
		}
		return ""
	})
	resps, err := x.W.Seq(reqs)
	if err != nil {
		return nil, err
	}
	for i, c := range chks {
		if d := c.f(resps[i]); d != "" {
			// diagnostics: what the server says about every label it lists or the model knows
			diag := ""
			var ll []uint64
			for _, r2 := range resps {
				_ = r2
			}
			if lr, err := x.W.Seq([]proto.Req{drv.GET(base + "/listlabels")}); err == nil && lr[0].Status == 200 {
				ll = bytesToU64s(lr[0].Body)
			}
			seen := map[uint64]bool{}
			var dq []proto.Req
			for _, l := range append(ll, bodies...) {
				if !seen[l] && len(dq) < 40 {
					seen[l] = true
					dq = append(dq, drv.GET(fmt.Sprintf("%s/supervoxel-sizes/%d", base, l)))
				}
			}
			if dr, err := x.W.Seq(dq); err == nil {
				for k, r2 := range dr {
					diag += fmt.Sprintf("\n  %s -> %d %s", dq[k].URL[len(base):], r2.Status, strings.Join(strings.Fields(string(r2.Body)), ""))
				}
			}
			diag += fmt.Sprintf("\n  model bodies->supervoxels(sizes): ")
			for _, b := range bodies {
				diag += fmt.Sprintf("%d:{", b)
				for _, sv := range bs[b] {
					diag += fmt.Sprintf("%d(%d) ", sv, svSizes[sv])
				}
				diag += "} "
			}
			return x.viol("labels-vs-voxel-scan", c.name+" disagrees with the voxel scan", vdesc+" "+reqs[i].URL+"\n"+d+diag), nil
		}
	}
	x.W.Stats.Probe("label-versions-checked")
	return nil, nil
}

func eqU64(a, b []uint64) bool {
	if len(a) != len(b) {
		return false
	}
	for i := range a {
		if a[i] != b[i] {
			return false
		}
	}
	return true
}

func cmpVolume(r proto.Resp, want []uint64, g LabelGeom) string {
	if r.Status != 200 {
		return fmt.Sprintf("status %d %s", r.Status, trunc(r.Body))
	}
	if len(r.Body) != 8*len(want) {
		return fmt.Sprintf("%d bytes returned, expected %d", len(r.Body), 8*len(want))
	}
	got := bytesToU64s(r.Body)
	nx, ny, _ := g.Dims()
	off := g.Offset()
	bad := 0
	first := ""
	for i := range want {
		if got[i] != want[i] {
			if bad == 0 {
				xx, yy, zz := i%nx, (i/nx)%ny, i/(nx*ny)
				first = fmt.Sprintf("first at voxel (%d,%d,%d): got %d, written/model %d", xx+off[0], yy+off[1], zz+off[2], got[i], want[i])
			}
			bad++
		}
	}
	if bad > 0 {
		return fmt.Sprintf("%d of %d voxels differ; %s", bad, len(want), first)
	}
	return ""
}

// cmpBlocks parses the uncompressed block stream: (int32 x,y,z block coord, int32 nbytes, data)*
func cmpBlocks(r proto.Resp, want []uint64, written []bool, g LabelGeom) string {
	if r.Status != 200 {
		return fmt.Sprintf("status %d %s", r.Status, trunc(r.Body))
	}
	b := r.Body
	B := g.B
	seen := map[[3]int]bool{}
	for len(b) > 0 {
		if len(b) < 16 {
			return "truncated block header"
		}
		bx := int(int32(binary.LittleEndian.Uint32(b[0:])))
		by := int(int32(binary.LittleEndian.Uint32(b[4:])))
		bz := int(int32(binary.LittleEndian.Uint32(b[8:])))
		n := int(binary.LittleEndian.Uint32(b[12:]))
		b = b[16:]
		if n != B*B*B*8 || len(b) < n {
			return fmt.Sprintf("block (%d,%d,%d): %d bytes, expected %d", bx, by, bz, n, B*B*B*8)
		}
		data := bytesToU64s(b[:n])
		b = b[n:]
		lx, ly, lz := bx-g.Origin[0], by-g.Origin[1], bz-g.Origin[2]
		if lx < 0 || ly < 0 || lz < 0 || lx >= g.G[0] || ly >= g.G[1] || lz >= g.G[2] {
			return fmt.Sprintf("block (%d,%d,%d) outside the requested box", bx, by, bz)
		}
		if seen[[3]int{lx, ly, lz}] {
			return fmt.Sprintf("block (%d,%d,%d) sent twice", bx, by, bz)
		}
		seen[[3]int{lx, ly, lz}] = true
		i := 0
		for z := 0; z < B; z++ {
			for y := 0; y < B; y++ {
				for xx := 0; xx < B; xx++ {
					w := want[g.idx(lx*B+xx, ly*B+y, lz*B+z)]
					if data[i] != w {
						return fmt.Sprintf("block (%d,%d,%d) voxel (%d,%d,%d): got %d, written/model %d", bx, by, bz, xx, y, z, data[i], w)
					}
					i++
				}
			}
		}
	}
	// every block holding a non-zero voxel must have been sent
	for lz := 0; lz < g.G[2]; lz++ {
		for ly := 0; ly < g.G[1]; ly++ {
			for lx := 0; lx < g.G[0]; lx++ {
				if seen[[3]int{lx, ly, lz}] {
					continue
				}
				for z := 0; z < B; z++ {
					for y := 0; y < B; y++ {
						for xx := 0; xx < B; xx++ {
							if want[g.idx(lx*B+xx, ly*B+y, lz*B+z)] != 0 {
								return fmt.Sprintf("block (%d,%d,%d) holds labels but was not in the stream", lx+g.Origin[0], ly+g.Origin[1], lz+g.Origin[2])
							}
						}
					}
				}
			}
		}
	}
	return ""
}

func cmpRuns(r proto.Resp, hdr int, want map[[3]int]bool, what string) string {
	if r.Status != 200 {
		return fmt.Sprintf("%s: status %d %s", what, r.Status, trunc(r.Body))
	}
	runs, err := DecodeRuns(r.Body, hdr)
	if err != nil {
		return what + ": " + err.Error()
	}
	if hdr == 12 {
		if n := int(binary.LittleEndian.Uint32(r.Body[8:])); n != len(runs) {
			return fmt.Sprintf("%s: header announces %d spans, %d present", what, n, len(runs))
		}
	}
	got := map[[3]int]bool{}
	for _, run := range runs {
		if run.N <= 0 {
			return fmt.Sprintf("%s: run %v with non-positive length", what, run)
		}
		for i := 0; i < run.N; i++ {
			p := [3]int{run.X + i, run.Y, run.Z}
			if got[p] {
				return fmt.Sprintf("%s: voxel %v covered twice", what, p)
			}
			got[p] = true
		}
	}
	if len(got) != len(want) {
		return fmt.Sprintf("%s: %d voxels returned, voxel scan gives %d", what, len(got), len(want))
	}
	for p := range want {
		if !got[p] {
			return fmt.Sprintf("%s: voxel %v missing", what, p)
		}
	}
	return ""
}

// ---- label index protobuf (parent-side decoder) ----
// message SVCount { map<uint64,uint32> counts = 1; }
// message LabelIndex { map<uint64,SVCount> blocks = 1; uint64 label = 2; uint64 last_mut_id = 3; ... }

type labelIndex struct {
	Label  uint64
	Blocks map[[3]int]map[uint64]uint32
}

func decodeLabelIndex(b []byte) (*labelIndex, string) {
	idx := &labelIndex{Blocks: map[[3]int]map[uint64]uint32{}}
	for len(b) > 0 {
		tag, n := uvarint(b)
		if n <= 0 {
			return nil, "bad index protobuf"
		}
		b = b[n:]
		field, wt := tag>>3, tag&7
		switch wt {
		case 0:
			v, n := uvarint(b)
			if n <= 0 {
				return nil, "bad index protobuf varint"
			}
			b = b[n:]
			if field == 2 {
				idx.Label = v
			}
		case 2:
			l, n := uvarint(b)
			if n <= 0 || int(l) > len(b)-n {
				return nil, "bad index protobuf length"
			}
			msg := b[n : n+int(l)]
			b = b[n+int(l):]
			if field == 1 { // map entry: key=1 (uint64 block index), value=2 (SVCount)
				var key uint64
				counts := map[uint64]uint32{}
				for len(msg) > 0 {
					t, n := uvarint(msg)
					if n <= 0 {
						return nil, "bad index map entry"
					}
					msg = msg[n:]
					switch t {
					case 1<<3 | 0:
						key, n = uvarint(msg)
						msg = msg[n:]
					case 2<<3 | 2:
						l2, n := uvarint(msg)
						sv := msg[n : n+int(l2)]
						msg = msg[n+int(l2):]
						for len(sv) > 0 { // SVCount: repeated map entries field 1
							t2, n := uvarint(sv)
							sv = sv[n:]
							if t2 == (2<<3 | 0) { // surface_mutid
								_, n := uvarint(sv)
								sv = sv[n:]
								continue
							}
							if t2 != (1<<3 | 2) {
								return nil, "bad SVCount"
							}
							l3, n := uvarint(sv)
							e := sv[n : n+int(l3)]
							sv = sv[n+int(l3):]
							var k uint64
							var c uint64
							for len(e) > 0 {
								t3, n := uvarint(e)
								e = e[n:]
								val, n := uvarint(e)
								e = e[n:]
								if t3>>3 == 1 {
									k = val
								} else if t3>>3 == 2 {
									c = val
								}
							}
							counts[k] = uint32(c)
						}
					default:
						return nil, "unexpected field in index map entry"
					}
				}
				// block index packs z,y,x as 3 x 21 bits (two's complement)
				// sign-magnitude: bit 20 is the sign flag, bits 0-19 the magnitude
				dec := func(v uint64) int {
					m := int(v & 0xfffff)
					if v&0x100000 != 0 {
						return -m
					}
					return m
				}
				bc := [3]int{dec(key), dec(key >> 21), dec(key >> 42)}
				idx.Blocks[bc] = counts
			}
		case 1:
			b = b[8:]
		case 5:
			b = b[4:]
		default:
			return nil, "unsupported wire type in index"
		}
	}
	return idx, ""
}

// Resync adopts DVID's current state as the model (after a crash interrupted an
// operation whose effect is unknown): supervoxel volume and mapping of every version.
func (x *LabelExec) Resync() error {
	g := x.M.Geom
	nx, ny, nz := g.Dims()
	off := g.Offset()
	full := fmt.Sprintf("%d_%d_%d/%d_%d_%d", nx, ny, nz, off[0], off[1], off[2])
	for _, v := range x.D.Sorted() {
		lv := x.M.Versions[v]
		if lv == nil {
			continue
		}
		st, body, err := x.W.HTTP("GET", x.base(v)+"/raw/0_1_2/"+full+"?supervoxels=true", nil)
		if err != nil {
			return err
		}
		if st != 200 || len(body) != 8*len(lv.Vox) {
			continue
		}
		lv.Vox = bytesToU64s(body)
		var svs []uint64
		for sv := range lv.SVSizes() {
			svs = append(svs, sv)
			x.M.note(sv)
		}
		sort.Slice(svs, func(i, j int) bool { return svs[i] < svs[j] })
		if len(svs) == 0 {
			continue
		}
		resps, err := x.W.Seq([]proto.Req{{Client: "c0", Kind: "http", Method: "GET", URL: x.base(v) + "/mapping", Body: jsonU64s(svs)}})
		if err != nil {
			return err
		}
		var mapped []uint64
		if resps[0].Status == 200 && json.Unmarshal(resps[0].Body, &mapped) == nil && len(mapped) == len(svs) {
			lv.Map = map[uint64]uint64{}
			for i, sv := range svs {
				if mapped[i] != sv && mapped[i] != 0 {
					lv.Map[sv] = mapped[i]
					x.M.note(mapped[i])
				}
			}
		}
	}
	return nil
}
