package props

import (
	"archive/tar"
	"bytes"
	"encoding/json"
	"fmt"
	"io"
	"math/rand/v2"
	"sort"
	"strings"
	"time"

	"verif/sim/drv"
	"verif/sim/proto"
)

// C05 — range and listing queries agree with point reads.
type C05 struct{ drv.CheckBase }

func init() { drv.Register(&C05{}) }

func (C05) ID() string    { return "C05" }
func (C05) Level() string { return "exploration" }
func (C05) Rule() string {
	return "each run = one seeded put/delete history over a branched DAG (C01 generator) with a key alphabet of mutually prefixing keys, an unversioned and a second-repo " +
		"instance as foreign neighbours, store-level DeleteRange ops and restarts; at check points, for sampled versions and intervals [lo,hi] (empty, single-key, prefix-related, " +
		"whole-space, ends equal to existing keys) every listing/range endpoint (keys, keyrange, keyrangevalues json|tar|protobuf, keyvalues json|tar, store-level GetRange, " +
		"KeysInRange, SendKeysInRange, ProcessRange) is compared with the set of point reads {k in [lo,hi] : GET k = 200} (relational oracle), and DeleteRange against the model. " +
		"a boundary-value family writes 999..3000 keys (around the badger driver's internal DeleteRange batch of 1000) into one version and checks the listing and a store-level DeleteRange over all, all but one, or the first 1000 of them; non-trivial = history has a branch or merge and a delete; distinct = distinct (steps, schedule, faults) hash"
}
func (C05) Assumptions() []string { return commonAssumptions }
func (C05) Budget(tier string) (int, time.Duration) {
	return budget(tier, 500, 30000, 80*time.Second, 25*time.Minute)
}

var c05Keys = []string{"a", "aa", "ab", "abc", "b", "ba", "c", "m", "zz"}
var c05Ends = []string{"0", "a", "aa", "ab", "abc", "abd", "b", "ba", "bz", "c", "m", "n", "zz", "zzz"}

func (C05) Generate(r *rand.Rand, tier string, idx int) *drv.Scenario {
	if idx%25 == 7 {
		// boundary-value family: ranges holding a number of keys around the driver's internal batch sizes
		n := pick(r, []int{999, 1000, 1001, 2000, 1999, 3000})
		sc := &drv.Scenario{Family: "driver-batch-boundary", Knobs: baseKnobs(r), Fixed: 1,
			Steps: []drv.Op{{Op: "bulk", N: int64(n), M: int64(r.IntN(3))}}}
		return sc
	}
	fam := []string{"linear", "branchy", "mergey"}[r.IntN(3)]
	nk := 3 + r.IntN(len(c05Keys)-2)
	keys := append([]string(nil), c05Keys...)
	r.Shuffle(len(keys), func(i, j int) { keys[i], keys[j] = keys[j], keys[i] })
	keys = keys[:nk]
	o := KVGenOpts{
		MaxVersions: 3 + r.IntN(8),
		Keys:        keys,
		Steps:       14 + r.IntN(30),
		PRestart:    0.015,
		PCheck:      0.04,
		Unversioned: r.IntN(2) == 0,
		SecondRepo:  r.IntN(3) == 0,
		FinalCheck:  true,
		PExtra:      0.07,
	}
	switch fam {
	case "linear":
		o.MergeBias = -8
	case "mergey":
		o.MergeBias = 10
	}
	o.ExtraOp = func(g *KVGen) *drv.Op {
		open := g.D.Open(0)
		if len(open) == 0 {
			return nil
		}
		lo, hi := pick(g.R, c05Ends), pick(g.R, c05Ends)
		if lo > hi {
			lo, hi = hi, lo
		}
		return &drv.Op{Op: "delrange", V: pick(g.R, open), I: g.O.Inst, K: lo, K2: hi}
	}
	g := GenKVHistory(r, o)
	// JSON-valued payloads so that the json range format is usable
	for i := range g.Steps {
		if g.Steps[i].Op == "put" {
			g.Steps[i].Val = `"` + g.Steps[i].Val + `"`
		}
	}
	sc := &drv.Scenario{Family: fam, Knobs: baseKnobs(r), Steps: g.Steps, Fixed: g.Fixed}
	sc.Knobs.SchedSeed |= 1
	return sc
}

func (c C05) Execute(sc *drv.Scenario, w *drv.World) (*drv.Violation, error) {
	if _, err := w.Start(); err != nil {
		return nil, err
	}
	x := NewKVExec(w)
	rng := drv.NewRNG(sc.Seed ^ 0xc05)
	if len(sc.Steps) == 1 && sc.Steps[0].Op == "bulk" {
		v, err := c.bulk(w, sc.Steps[0])
		if err == nil && v == nil {
			w.Discard()
		}
		return v, err
	}
	for i, op := range sc.Steps {
		w.CurStep = i
		handled, v, err := x.ApplyDAGOp(op)
		if err != nil {
			return nil, err
		}
		if v != nil {
			v.Step = i
			return v, nil
		}
		if handled {
			continue
		}
		switch op.Op {
		case "delrange":
			v, err = c.delRange(x, op)
		case "check":
			v, err = c.rangeCheck(x, rng)
		}
		if err != nil {
			return nil, err
		}
		if v != nil {
			v.Step = i
			return v, nil
		}
	}
	w.Discard()
	return nil, nil
}

func (C05) delRange(x *KVExec, op drv.Op) (*drv.Violation, error) {
	m := x.Insts[op.I]
	if m == nil || !x.D.Has(op.V) || x.D.Nodes[op.V].Locked {
		x.Skipped++
		return nil, nil
	}
	// model: exactly the keys visible at V inside [lo,hi] become absent at V
	var hit []string
	for _, k := range m.Keys() {
		if k < op.K || k > op.K2 {
			continue
		}
		rr := m.Resolve(x.D, op.V, k)
		if rr.Kind == ReadConflict {
			x.W.Stats.Probe("delrange-skipped-conflict")
			return nil, nil
		}
		if rr.Kind == ReadValue {
			hit = append(hit, k)
		}
	}
	res, err := x.W.Batch([]proto.Req{{Client: "c0", Kind: "store", Store: &proto.StoreOp{Op: "deleterange", Data: op.I, UUID: x.uuid(op.V), KeyBeg: op.K, KeyEnd: op.K2}}}, "barrier")
	if err != nil {
		return nil, err
	}
	if res.Resps[0].Status != 200 {
		return &drv.Violation{Prop: "C05", Oracle: "deleterange", Sig: "DeleteRange failed", Detail: res.Resps[0].Err}, nil
	}
	for _, k := range hit {
		m.Delete(op.V, k)
	}
	x.W.Stats.Probe("delrange")
	if len(hit) > 0 {
		x.W.Stats.Probe("delrange-hit")
	}
	// the model-based part of the property: point reads everywhere match the model
	return x.CheckPointReads("C05")
}

type kvPair struct {
	K string
	V []byte
}

func (C05) rangeCheck(x *KVExec, rng *rand.Rand) (*drv.Violation, error) {
	w := x.W
	for inst, m := range x.Insts {
		repo := x.InstRepo[inst]
		var versions []int
		for _, vi := range x.D.Sorted() {
			if x.D.Nodes[vi].Repo == repo {
				versions = append(versions, vi)
			}
		}
		// sample up to 4 versions per check
		rng.Shuffle(len(versions), func(i, j int) { versions[i], versions[j] = versions[j], versions[i] })
		if len(versions) > 4 {
			versions = versions[:4]
		}
		allKeys := m.Keys()
		for _, vi := range versions {
			u := x.uuid(vi)
			base := "/api/node/" + u + "/" + inst
			// 1. point reads of every key ever written
			var reqs []proto.Req
			for _, k := range allKeys {
				reqs = append(reqs, drv.GET(base+"/key/"+k))
			}
			resps, err := w.Seq(reqs)
			if err != nil {
				return nil, err
			}
			point := map[string][]byte{}
			conflict := map[string]bool{}
			for i, k := range allKeys {
				switch resps[i].Status {
				case 200:
					point[k] = resps[i].Body
				case 404:
				default:
					conflict[k] = true
				}
				// A key with two unsuperseded live values (merge conflict, C01) has no
				// defined point value: DVID's point read answers 404 (it drops the
				// resolver's error) while range scans fail loudly.  Both "do not
				// succeed with either value"; such keys are outside this oracle.
				rv := vi
				if !m.Versioned {
					rv = x.RepoRoot[repo]
				}
				if m.Resolve(x.D, rv, k).Kind == ReadConflict {
					conflict[k] = true
				}
			}
			// 2. intervals
			type iv struct{ lo, hi string }
			ivs := []iv{{"0", "zzzz"}}
			for j := 0; j < 5; j++ {
				lo, hi := pick(rng, c05Ends), pick(rng, c05Ends)
				if lo > hi && rng.IntN(4) != 0 { // keep a few inverted (empty) intervals
					lo, hi = hi, lo
				}
				ivs = append(ivs, iv{lo, hi})
			}
			if len(allKeys) > 0 {
				k := pick(rng, allKeys)
				ivs = append(ivs, iv{k, k})
			}
			for _, in := range ivs {
				var want []kvPair
				skip := false
				for _, k := range allKeys {
					if k >= in.lo && k <= in.hi {
						if conflict[k] {
							skip = true
						}
						if v, ok := point[k]; ok {
							want = append(want, kvPair{k, v})
						}
					}
				}
				if skip {
					w.Stats.Probe("range-skipped-conflict")
					continue
				}
				sort.Slice(want, func(i, j int) bool { return want[i].K < want[j].K })
				if len(want) == 0 {
					w.Stats.Probe("range-empty")
				}
				if in.lo == in.hi {
					w.Stats.Probe("range-single-key")
				}
				for _, k := range allKeys {
					if k == in.hi {
						w.Stats.Probe("range-end-equals-existing-key")
					}
				}
				var wantKeys []string
				for _, p := range want {
					wantKeys = append(wantKeys, p.K)
				}
				kl, _ := json.Marshal(wantKeysOrAll(allKeys, in.lo, in.hi))
				rr := []proto.Req{
					drv.GET(base + "/keyrange/" + in.lo + "/" + in.hi),
					drv.GET(base + "/keyrangevalues/" + in.lo + "/" + in.hi + "?json=true"),
					drv.GET(base + "/keyrangevalues/" + in.lo + "/" + in.hi + "?tar=true"),
					drv.GET(base + "/keyrangevalues/" + in.lo + "/" + in.hi),
					{Client: "c0", Kind: "http", Method: "GET", URL: base + "/keyvalues?json=true", Body: kl},
					{Client: "c0", Kind: "http", Method: "GET", URL: base + "/keyvalues?jsontar=true", Body: kl},
					{Client: "c0", Kind: "store", Store: &proto.StoreOp{Op: "getrange", Data: inst, UUID: u, KeyBeg: in.lo, KeyEnd: in.hi}},
					{Client: "c0", Kind: "store", Store: &proto.StoreOp{Op: "keysinrange", Data: inst, UUID: u, KeyBeg: in.lo, KeyEnd: in.hi}},
					{Client: "c0", Kind: "store", Store: &proto.StoreOp{Op: "sendkeysinrange", Data: inst, UUID: u, KeyBeg: in.lo, KeyEnd: in.hi}},
					{Client: "c0", Kind: "store", Store: &proto.StoreOp{Op: "processrange", Data: inst, UUID: u, KeyBeg: in.lo, KeyEnd: in.hi}},
				}
				if in.lo == "0" && in.hi == "zzzz" {
					rr = append(rr, drv.GET(base+"/keys"))
				}
				res, err := w.Seq(rr)
				if err != nil {
					return nil, err
				}
				ctxd := fmt.Sprintf("inst=%s version=%d(%s) interval=[%q,%q] point-reads=%v", inst, vi, u[:4], in.lo, in.hi, wantKeys)
				bad := func(ep, why string) *drv.Violation {
					return &drv.Violation{Prop: "C05", Oracle: "range-vs-point", Sig: ep + ": " + why, Detail: ctxd + "\n" + ep + ": " + why}
				}
				// keyrange
				if v := cmpKeysJSON(res[0], wantKeys); v != "" {
					return bad("keyrange", v), nil
				}
				if got, e := parseOrderedJSON(res[1]); e != "" {
					return bad("keyrangevalues?json", e), nil
				} else if d := cmpPairs(got, want, false); d != "" {
					return bad("keyrangevalues?json", d), nil
				}
				if got, e := parseTar(res[2]); e != "" {
					return bad("keyrangevalues?tar", e), nil
				} else if d := cmpPairs(got, want, false); d != "" {
					return bad("keyrangevalues?tar", d), nil
				}
				if got, e := parseProtoKVs(res[3]); e != "" {
					return bad("keyrangevalues(protobuf)", e), nil
				} else if d := cmpPairs(got, want, false); d != "" {
					return bad("keyrangevalues(protobuf)", d), nil
				}
				// keyvalues: asked for every known key in the interval; absent ones come back as {} / empty
				asked := wantKeysOrAll(allKeys, in.lo, in.hi)
				var wantKV []kvPair
				for _, k := range asked {
					if v, ok := point[k]; ok {
						wantKV = append(wantKV, kvPair{k, v})
					} else {
						wantKV = append(wantKV, kvPair{k, nil})
					}
				}
				if got, e := parseOrderedJSON(res[4]); e != "" {
					return bad("keyvalues?json", e), nil
				} else if d := cmpPairs(got, wantKV, true); d != "" {
					return bad("keyvalues?json", d), nil
				}
				if got, e := parseTar(res[5]); e != "" {
					return bad("keyvalues?jsontar", e), nil
				} else if d := cmpPairs(got, wantKV, true); d != "" {
					return bad("keyvalues?jsontar", d), nil
				}
				// store level
				for si, name := range []string{"GetRange", "KeysInRange", "SendKeysInRange", "ProcessRange"} {
					r := res[6+si]
					if r.Status != 200 {
						return bad("store."+name, fmt.Sprintf("status %d %s", r.Status, r.Err)), nil
					}
					if name == "ProcessRange" {
						// chunk handlers may be concurrent: order is not promised, set and values are
						got := make([]kvPair, len(r.Keys))
						for i := range r.Keys {
							got[i] = kvPair{r.Keys[i], nil}
						}
						sort.Slice(got, func(i, j int) bool { return got[i].K < got[j].K })
						var gk []string
						for _, p := range got {
							gk = append(gk, p.K)
						}
						if strings.Join(gk, ",") != strings.Join(wantKeys, ",") {
							return bad("store."+name, fmt.Sprintf("keys %v", gk)), nil
						}
						continue
					}
					if strings.Join(r.Keys, ",") != strings.Join(wantKeys, ",") {
						return bad("store."+name, fmt.Sprintf("keys %v", r.Keys)), nil
					}
				}
				if len(rr) > 10 {
					if v := cmpKeysJSON(res[10], wantKeys); v != "" {
						return bad("keys", v), nil
					}
				}
				w.Stats.Probe("intervals-checked")
			}
		}
	}
	return nil, nil
}

func wantKeysOrAll(all []string, lo, hi string) []string {
	out := []string{}
	for _, k := range all {
		if k >= lo && k <= hi {
			out = append(out, k)
		}
	}
	return out
}

func cmpKeysJSON(r proto.Resp, want []string) string {
	if r.Status != 200 {
		return fmt.Sprintf("status %d %s", r.Status, trunc(r.Body))
	}
	var got []string
	if err := json.Unmarshal(r.Body, &got); err != nil {
		return "unparseable: " + trunc(r.Body)
	}
	if strings.Join(got, ",") != strings.Join(want, ",") {
		return fmt.Sprintf("keys %v", got)
	}
	return ""
}

func cmpPairs(got, want []kvPair, absentAsEmpty bool) string {
	if len(got) != len(want) {
		return fmt.Sprintf("returned %d entries %v, point reads give %d", len(got), pairKeys(got), len(want))
	}
	for i := range want {
		if got[i].K != want[i].K {
			return fmt.Sprintf("entry %d is key %q, expected %q (order/duplicates)", i, got[i].K, want[i].K)
		}
		if want[i].V == nil && absentAsEmpty {
			if len(got[i].V) != 0 && string(got[i].V) != "{}" {
				return fmt.Sprintf("absent key %q returned value %q", want[i].K, trunc(got[i].V))
			}
			continue
		}
		if !bytes.Equal(got[i].V, want[i].V) {
			return fmt.Sprintf("key %q value %q differs from point read %q", want[i].K, trunc(got[i].V), trunc(want[i].V))
		}
	}
	return ""
}

func pairKeys(p []kvPair) []string {
	var out []string
	for _, x := range p {
		out = append(out, x.K)
	}
	return out
}

// parseOrderedJSON parses {"k":v,...} preserving order and raw values.
func parseOrderedJSON(r proto.Resp) ([]kvPair, string) {
	if r.Status != 200 {
		return nil, fmt.Sprintf("status %d %s", r.Status, trunc(r.Body))
	}
	dec := json.NewDecoder(bytes.NewReader(r.Body))
	t, err := dec.Token()
	if err != nil || t != json.Delim('{') {
		return nil, "not a JSON object: " + trunc(r.Body)
	}
	var out []kvPair
	for dec.More() {
		kt, err := dec.Token()
		if err != nil {
			return nil, "bad JSON: " + trunc(r.Body)
		}
		k, _ := kt.(string)
		var raw json.RawMessage
		if err := dec.Decode(&raw); err != nil {
			return nil, "bad JSON value: " + trunc(r.Body)
		}
		out = append(out, kvPair{k, []byte(raw)})
	}
	return out, ""
}

func parseTar(r proto.Resp) ([]kvPair, string) {
	if r.Status != 200 {
		return nil, fmt.Sprintf("status %d %s", r.Status, trunc(r.Body))
	}
	tr := tar.NewReader(bytes.NewReader(r.Body))
	var out []kvPair
	for {
		h, err := tr.Next()
		if err == io.EOF {
			break
		}
		if err != nil {
			return nil, "bad tar: " + err.Error()
		}
		b, _ := io.ReadAll(tr)
		out = append(out, kvPair{h.Name, b})
	}
	return out, ""
}

// parseProtoKVs decodes message KeyValues{repeated KeyValue kvs=1}; KeyValue{string key=1; bytes value=2}.
func parseProtoKVs(r proto.Resp) ([]kvPair, string) {
	if r.Status != 200 {
		return nil, fmt.Sprintf("status %d %s", r.Status, trunc(r.Body))
	}
	var out []kvPair
	b := r.Body
	for len(b) > 0 {
		tag, n := uvarint(b)
		if n <= 0 || tag != (1<<3|2) {
			return nil, "bad protobuf"
		}
		b = b[n:]
		l, n := uvarint(b)
		if n <= 0 || int(l) > len(b)-n {
			return nil, "bad protobuf length"
		}
		msg := b[n : n+int(l)]
		b = b[n+int(l):]
		var p kvPair
		for len(msg) > 0 {
			t, n := uvarint(msg)
			if n <= 0 {
				return nil, "bad protobuf"
			}
			msg = msg[n:]
			fl, n := uvarint(msg)
			if n <= 0 || int(fl) > len(msg)-n {
				return nil, "bad protobuf field"
			}
			val := msg[n : n+int(fl)]
			msg = msg[n+int(fl):]
			switch t {
			case 1<<3 | 2:
				p.K = string(val)
			case 2<<3 | 2:
				p.V = append([]byte{}, val...)
			}
		}
		out = append(out, p)
	}
	return out, ""
}

func uvarint(b []byte) (uint64, int) {
	var x uint64
	var s uint
	for i, c := range b {
		if c < 0x80 {
			return x | uint64(c)<<s, i + 1
		}
		x |= uint64(c&0x7f) << s
		s += 7
		if s > 63 {
			return 0, -1
		}
	}
	return 0, 0
}

func (C05) NonTrivial(sc *drv.Scenario, st *drv.RunStats) bool {
	if st.Probes["driver-batch-boundary"] > 0 {
		return true
	}
	structural, del := false, false
	for _, op := range sc.Steps {
		if op.Op == "merge" || op.Op == "branch" {
			structural = true
		}
		if op.Op == "del" || op.Op == "delrange" {
			del = true
		}
	}
	return structural && del
}

// bulk: n keys in one version (n around the badger driver's DeleteRange batch of 1000), every listing form
// must show exactly n keys; a store-level DeleteRange over part or all of them must remove exactly that part.
func (C05) bulk(w *drv.World, op drv.Op) (*drv.Violation, error) {
	u := VUUID(0)
	if st, b, err := w.HTTP("POST", "/api/repos", jsonBody(map[string]interface{}{"alias": "bulk", "root": u})); err != nil || st != 200 {
		if err == nil {
			err = fmt.Errorf("%w: repo: %d %s", drv.ErrInfra, st, b)
		}
		return nil, err
	}
	if st, b, err := w.HTTP("POST", "/api/repo/"+u+"/instance", jsonBody(map[string]interface{}{"typename": "keyvalue", "dataname": "kv"})); err != nil || st != 200 {
		if err == nil {
			err = fmt.Errorf("%w: instance: %d %s", drv.ErrInfra, st, b)
		}
		return nil, err
	}
	n := int(op.N)
	base := "/api/node/" + u + "/kv"
	// POST keyvalues (protobuf) in chunks of 250 pairs
	for lo := 0; lo < n; lo += 250 {
		var body []byte
		for i := lo; i < lo+250 && i < n; i++ {
			k, v := fmt.Sprintf("k%05d", i), []byte(fmt.Sprintf("\"v%d\"", i))
			var inner []byte
			inner = append(inner, 0x0a)
			inner = appendUvarint(inner, uint64(len(k)))
			inner = append(inner, k...)
			inner = append(inner, 0x12)
			inner = appendUvarint(inner, uint64(len(v)))
			inner = append(inner, v...)
			body = append(body, 0x0a)
			body = appendUvarint(body, uint64(len(inner)))
			body = append(body, inner...)
		}
		st, b, err := w.HTTP("POST", base+"/keyvalues", body)
		if err != nil {
			return nil, err
		}
		if st != 200 {
			return nil, fmt.Errorf("%w: bulk keyvalues: %d %s", drv.ErrInfra, st, trunc(b))
		}
	}
	count := func() (int, string, error) {
		st, b, err := w.HTTP("GET", base+"/keys", nil)
		if err != nil {
			return 0, "", err
		}
		var ks []string
		if st != 200 || json.Unmarshal(b, &ks) != nil {
			return 0, fmt.Sprintf("GET keys -> %d %s", st, trunc(b)), nil
		}
		return len(ks), "", nil
	}
	got, bad, err := count()
	if err != nil {
		return nil, err
	}
	if bad != "" || got != n {
		return &drv.Violation{Prop: "C05", Oracle: "bulk-listing", Sig: "listing of a large key set is incomplete", Detail: fmt.Sprintf("%d keys written, GET keys lists %d %s", n, got, bad)}, nil
	}
	// delete [lo, hi): whole set, all but the last key, or the first 1000
	lo, hi, want := "k00000", "kzzzzz", 0
	switch op.M {
	case 1:
		hi, want = fmt.Sprintf("k%05d", n-2), 1 // inclusive upper end: leaves the last key
	case 2:
		if n > 1000 {
			hi, want = "k00999", n-1000
		}
	}
	res, err := w.Batch([]proto.Req{{Client: "c0", Kind: "store", Store: &proto.StoreOp{Op: "deleterange", Data: "kv", UUID: u, KeyBeg: lo, KeyEnd: hi}}}, "barrier")
	if err != nil {
		return nil, err
	}
	if res.Resps[0].Status != 200 {
		return &drv.Violation{Prop: "C05", Oracle: "deleterange", Sig: "DeleteRange failed", Detail: res.Resps[0].Err}, nil
	}
	got, bad, err = count()
	if err != nil {
		return nil, err
	}
	if bad != "" || got != want {
		return &drv.Violation{Prop: "C05", Oracle: "bulk-deleterange", Sig: "DeleteRange over a large key set leaves the wrong number of keys",
			Detail: fmt.Sprintf("%d keys, DeleteRange [%s, %s] should leave %d, GET keys lists %d %s", n, lo, hi, want, got, bad)}, nil
	}
	w.Stats.Probe("driver-batch-boundary")
	return nil, nil
}
