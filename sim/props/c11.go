package props

import (
	"encoding/json"
	"fmt"
	"math/rand/v2"
	"sort"
	"strings"
	"time"

	"github.com/anishathalye/porcupine"

	"verif/sim/drv"
	"verif/sim/proto"
)

// C11 — concurrent acknowledged mutations are never lost or half applied.
type C11 struct{ drv.CheckBase }

func init() { drv.Register(&C11{}) }

func (C11) ID() string    { return "C11" }
func (C11) Level() string { return "exploration" }
func (C11) Rule() string {
	return "each run = set-up + 3-8 concurrent batches of 2-4 client requests that collide on purpose (same key / same parent version / same body / same annotation block), " +
		"interleaved by the seeded scheduler at every storage call (uniform or sticky choice policy, randomised per run); families: " +
		"kv (POST/DELETE/GET on 1-2 keys of a child version whose parent holds older values; whole history incl. later quiescent reads checked for linearizability with porcupine against a per-key register model, " +
		"invoke/return = scheduler event numbers), dag (concurrent new-version/branch/commit/merge on one parent and new versions in different repos; afterwards the C07 graph invariants, at most one child per branch, " +
		"every acknowledged child present), labels (bodies of several supervoxels; batches of 2-3 commuting label operations issued together - cleaves of ONE body with disjoint supervoxels, merges of distinct bodies into ONE target, a cleave and a merge on disjoint bodies; every acknowledged one must be fully applied: afterwards every read endpoint is compared with the C08 reference model), dag-locks (the dag batches plus node note/log posts, repo info reads and key-value writes on a version that stays open, run with Knobs.LockYield: every Mutex/RWMutex acquisition made from DVID's own sources parks the goroutine, so lock-order inversions and recursive read locks become reachable schedules; a batch that never completes is a C20 wedge, an acknowledged note must be one of the batch's notes, every acknowledged log line present exactly once). ann (2-3 clients post and delete annotation elements at distinct positions of ONE block and one tag at the same time; afterwards the block, both tag lists and the all-elements listing hold exactly the acknowledged elements). In every family each third run sets LockYield as well. non-trivial = at least one decision among >=2 parked goroutines; distinct = distinct decision-sequence hash"
}
func (C11) Assumptions() []string {
	return append([]string{"porcupine timeouts (Unknown) are counted as inconclusive, never reported"}, commonAssumptions...)
}
func (C11) Budget(tier string) (int, time.Duration) {
	return budget(tier, 700, 60000, 80*time.Second, 30*time.Minute)
}

func (C11) Generate(r *rand.Rand, tier string, idx int) *drv.Scenario {
	fam := []string{"kv", "kv", "dag", "labels", "dag-locks", "ann"}[r.IntN(6)]
	sc := &drv.Scenario{Family: fam, Knobs: baseKnobs(r)}
	sc.Knobs.Bias = r.IntN(3)
	locks := fam == "dag-locks"
	if locks {
		// repo-level requests with every mutex acquisition in DVID's own sources as a scheduling point
		sc.Knobs.LockYield = true
	}
	if fam == "labels" {
		// bodies of several supervoxels, then batches of commuting label operations on one body / one target
		seed := func() int64 { return int64(r.Uint64N(1 << 40)) }
		g := []int{2, 1 + r.IntN(2), 1}
		steps := []drv.Op{{Op: "lrepo", P: [][]int{{16}, g, {0, 0, 0}}}, {Op: "ingest", V: 0, N: seed()}, {Op: "ingest", V: 0, N: seed()}, {Op: "ingest", V: 0, N: seed()}}
		for i := 0; i < 2+r.IntN(3); i++ {
			steps = append(steps, drv.Op{Op: "lmerge", V: 0, N: seed()})
		}
		sc.Fixed = len(steps)
		for b := 0; b < 3+r.IntN(4); b++ {
			steps = append(steps, drv.Op{Op: "parlabel", V: 0, N: seed()})
			if r.IntN(3) == 0 {
				steps = append(steps, drv.Op{Op: "lmerge", V: 0, N: seed()})
			}
			steps = append(steps, drv.Op{Op: "lcheck", V: 0})
		}
		steps = append(steps, drv.Op{Op: "lcheckall"})
		if r.IntN(3) == 0 {
			steps = append(steps, drv.Op{Op: "parsplitblocks", V: 0, N: seed()})
		}
		sc.Steps = steps
		return lockSwarm(sc, idx)
	}
	var steps []drv.Op
	valCtr := 0
	nv := func() string { valCtr++; return fmt.Sprintf("v%d", valCtr) }
	if fam == "ann" {
		// annotation elements of ONE block (and one tag) posted and deleted by several clients at once
		steps = append(steps, drv.Op{Op: "repo", R: 0, N: 0}, drv.Op{Op: "inst", R: 0, I: "ann", T: "annotation"})
		sc.Fixed = len(steps)
		used := map[[3]int]bool{}
		var present [][3]int
		for b := 0; b < 3+r.IntN(4); b++ {
			var sub []drv.Op
			for c := 0; c < 2+r.IntN(2); c++ {
				cl := fmt.Sprintf("c%d", c+1)
				if len(present) > 0 && r.IntN(4) == 0 {
					i := r.IntN(len(present))
					p := present[i]
					present = append(present[:i], present[i+1:]...)
					sub = append(sub, drv.Op{Op: "eldel", C: cl, P: [][]int{{p[0], p[1], p[2]}}})
					continue
				}
				var ps [][]int
				for k := 0; k < 1+r.IntN(2); k++ {
					p := [3]int{r.IntN(8), r.IntN(8), r.IntN(8)}
					if r.IntN(5) == 0 {
						p[0] += 64 // now and then a neighbouring block (same tag list)
					}
					if used[p] {
						continue
					}
					used[p] = true
					ps = append(ps, []int{p[0], p[1], p[2]})
				}
				if len(ps) > 0 {
					sub = append(sub, drv.Op{Op: "elpost", C: cl, P: ps, Val: pick(r, []string{"t1", "t1", "t2"})})
				}
			}
			for _, s := range sub {
				if s.Op == "elpost" {
					for _, p := range s.P {
						present = append(present, [3]int{p[0], p[1], p[2]})
					}
				}
			}
			steps = append(steps, drv.Op{Op: "annpar", Sub: sub})
		}
		sc.Steps = steps
		return lockSwarm(sc, idx)
	}
	switch fam {
	case "kv":
		keys := []string{"k1", "k2"}[:1+r.IntN(2)]
		steps = append(steps, drv.Op{Op: "repo", R: 0, N: 0}, drv.Op{Op: "inst", R: 0, I: "kv", T: "keyvalue"})
		for _, k := range keys {
			if r.IntN(3) != 0 {
				steps = append(steps, drv.Op{Op: "put", V: 0, I: "kv", K: k, Val: nv()})
			}
		}
		steps = append(steps, drv.Op{Op: "commit", V: 0}, drv.Op{Op: "newver", V: 0, N: 1})
		nb := 3 + r.IntN(6)
		for b := 0; b < nb; b++ {
			var sub []drv.Op
			nc := 2 + r.IntN(3)
			for c := 0; c < nc; c++ {
				k := pick(r, keys)
				cl := fmt.Sprintf("c%d", c+1)
				switch x := r.IntN(10); {
				case x < 5:
					sub = append(sub, drv.Op{Op: "put", C: cl, V: 1, I: "kv", K: k, Val: nv()})
				case x < 8:
					sub = append(sub, drv.Op{Op: "del", C: cl, V: 1, I: "kv", K: k})
				default:
					sub = append(sub, drv.Op{Op: "get", C: cl, V: 1, I: "kv", K: k})
				}
			}
			steps = append(steps, drv.Op{Op: "par", Sub: sub})
			steps = append(steps, drv.Op{Op: "readall", V: 1, I: "kv", S: keys})
		}
	case "dag", "dag-locks":
		steps = append(steps, drv.Op{Op: "repo", R: 0, N: 0}, drv.Op{Op: "repo", R: 1, N: 1}, drv.Op{Op: "commit", V: 0})
		next := 2
		keep := 0 // (lock family) index of a version that stays open, for note and log posts
		if locks {
			steps = append(steps[:2], drv.Op{Op: "inst", R: 0, I: "kv", T: "keyvalue"}, drv.Op{Op: "commit", V: 0})
			steps = append(steps, drv.Op{Op: "branch", V: 0, Br: "keep", N: 2})
			keep, next = 2, 3
		}
		nb := 3 + r.IntN(4)
		locked := []int{0}
		open := []int{1}
		for b := 0; b < nb; b++ {
			var sub []drv.Op
			nc := 2 + r.IntN(3)
			p := pick(r, locked)
			for c := 0; c < nc; c++ {
				cl := fmt.Sprintf("c%d", c+1)
				x := r.IntN(10)
				if locks && r.IntN(8) == 0 && c+1 < nc {
					// two clients create a data instance of the same name at once: one of them must be refused
					name := fmt.Sprintf("dup%d", b)
					sub = append(sub, drv.Op{Op: "mkinst", C: cl, V: keep, I: name}, drv.Op{Op: "mkinst", C: fmt.Sprintf("c%d", c+2), V: keep, I: name})
					c++
					continue
				}
				if locks && r.IntN(2) == 0 {
					switch y := r.IntN(6); y {
					case 0, 1:
						sub = append(sub, drv.Op{Op: "note", C: cl, V: keep, Val: nv()})
					case 2, 3:
						sub = append(sub, drv.Op{Op: "log", C: cl, V: keep, Val: nv()})
					case 4:
						sub = append(sub, drv.Op{Op: pick(r, []string{"info", "infos", "getlog"}), C: cl, V: pick(r, []int{0, keep})})
					default:
						sub = append(sub, drv.Op{Op: "put", C: cl, V: keep, I: "kv", K: "k1", Val: nv()})
					}
					continue
				}
				switch {
				case x < 4:
					sub = append(sub, drv.Op{Op: "newver", C: cl, V: p, N: int64(next)})
					next++
				case x < 7:
					br := fmt.Sprintf("br%d", r.IntN(2)+b*2)
					sub = append(sub, drv.Op{Op: "branch", C: cl, V: p, Br: br, N: int64(next)})
					next++
				case x < 8 && len(open) > 0:
					sub = append(sub, drv.Op{Op: "commit", C: cl, V: pick(r, open)})
				case x < 9 && len(locked) >= 2:
					sub = append(sub, drv.Op{Op: "merge", C: cl, Ps: []int{locked[0], locked[len(locked)-1]}, N: int64(next)})
					next++
				default:
					// a new version in the OTHER repo (shares only the server-wide id counters)
					sub = append(sub, drv.Op{Op: "newver", C: cl, V: 1, N: int64(next)})
					next++
				}
			}
			steps = append(steps, drv.Op{Op: "par", Sub: sub})
			// commit everything that got created so that later batches have parents
			steps = append(steps, drv.Op{Op: "commitall", M: int64(keep)})
			if r.IntN(4) == 0 {
				// the id counters and caches persisted by the concurrent requests must be the newest ones:
				// ids handed out after the restart must not collide with those of the batch
				steps = append(steps, drv.Op{Op: "restart", Mode: "kill"})
			}
			for i := 1; i < next; i++ {
				if i != keep {
					locked = append(locked, i)
				}
			}
			open = nil
		}
	}
	sc.Steps = steps
	for i, st := range steps {
		if st.Op == "par" {
			sc.Fixed = i
			break
		}
	}
	return lockSwarm(sc, idx)
}

type kvIn struct {
	Op  string // put | del | get
	Key string
	Val string
}
type kvOut struct {
	Status int
	Val    string
}

// per-key register: state "" = absent, else value
var kvRegisterModel = porcupine.Model{
	Partition: func(history []porcupine.Operation) [][]porcupine.Operation {
		m := map[string][]porcupine.Operation{}
		var keys []string
		for _, op := range history {
			k := op.Input.(kvIn).Key
			if _, ok := m[k]; !ok {
				keys = append(keys, k)
			}
			m[k] = append(m[k], op)
		}
		sort.Strings(keys)
		var out [][]porcupine.Operation
		for _, k := range keys {
			out = append(out, m[k])
		}
		return out
	},
	Init: func() interface{} { return "\x00unset" },
	Step: func(state, input, output interface{}) (bool, interface{}) {
		in := input.(kvIn)
		out := output.(kvOut)
		st := state.(string)
		switch in.Op {
		case "init":
			return true, in.Val
		case "put":
			if out.Status == 200 {
				return true, in.Val
			}
			return true, st // refused write: no effect
		case "del":
			if out.Status == 200 {
				return true, ""
			}
			return true, st
		case "get":
			if st == "" {
				return out.Status == 404, st
			}
			return out.Status == 200 && out.Val == st, st
		}
		return false, st
	},
	DescribeOperation: func(input, output interface{}) string {
		in := input.(kvIn)
		out := output.(kvOut)
		return fmt.Sprintf("%s(%s,%s)->%d %s", in.Op, in.Key, in.Val, out.Status, out.Val)
	},
}

func (c C11) Execute(sc *drv.Scenario, w *drv.World) (*drv.Violation, error) {
	if _, err := w.Start(); err != nil {
		return nil, err
	}
	if sc.Family == "labels" {
		lx := NewLabelExec(w, "C11")
		v, err := runLabelSteps(sc, w, lx, nil)
		if err != nil || v != nil {
			return v, err
		}
		w.Discard()
		return nil, nil
	}
	x := NewKVExec(w)
	annModel := map[[3]int]string{} // (ann family) position -> tag of every element that must exist
	isDag := sc.Family == "dag" || sc.Family == "dag-locks"
	lastNote := map[int]string{} // (lock family) version index -> note it must hold
	logLines := map[int][]string{}
	var hist []porcupine.Operation
	var histDesc []string
	inited := map[string]bool{}
	clientID := map[string]int{"c0": 0, "c1": 1, "c2": 2, "c3": 3, "c4": 4}
	addOp := func(in kvIn, r proto.Resp) {
		if !inited[in.Key] || (r.Status != 200 && r.Status != 404 && in.Op == "get") {
			w.Stats.Probe("kv-op-outside-model")
			return
		}
		hist = append(hist, porcupine.Operation{ClientId: clientID[r.Client], Input: in, Call: int64(r.Invoke), Output: kvOut{r.Status, string(r.Body)}, Return: int64(r.Return)})
		histDesc = append(histDesc, fmt.Sprintf("[%d,%d] %s %s(%s,%s) -> %d %s", r.Invoke, r.Return, r.Client, in.Op, in.Key, in.Val, r.Status, trunc(r.Body)))
	}
	for i, op := range sc.Steps {
		w.CurStep = i
		switch op.Op {
		case "par":
			var reqs []proto.Req
			var ops []drv.Op
			for _, s := range op.Sub {
				rq, ok := c.toReq(x, s)
				if !ok {
					continue
				}
				reqs = append(reqs, rq)
				ops = append(ops, s)
			}
			if len(reqs) == 0 {
				continue
			}
			res, err := w.Batch(reqs, "barrier")
			if err != nil {
				return nil, err
			}
			if res.Wedged {
				// never acknowledged: C11 is silent, C20 is not (if the server no longer serves)
				return nil, w.ClassifyWedge("concurrent "+opKinds(ops)+"\n"+descReqs(reqs), res.Stacks)
			}
			for j, s := range ops {
				r := res.Resps[j]
				switch s.Op {
				case "put", "del", "get":
					addOp(kvIn{s.Op, s.K, s.Val}, r)
				case "newver", "branch":
					if r.Status == 200 {
						p := x.D.Nodes[s.V]
						br := p.Branch
						if s.Op == "branch" {
							br = s.Br
						}
						x.D.Add(int(s.N), childUUID(r.Body), []int{s.V}, br, p.Repo)
						w.Stats.Probe("concurrent-child-acked")
					} else {
						w.Stats.Probe("concurrent-child-refused")
					}
				case "merge":
					if r.Status == 200 {
						x.D.Add(int(s.N), childUUID(r.Body), s.Ps, "", x.D.Nodes[s.Ps[0]].Repo)
					}
				case "commit":
					if r.Status == 200 && x.D.Has(s.V) {
						x.D.Nodes[s.V].Locked = true
					}
				}
			}
			if sc.Family == "dag-locks" {
				if v, err := c.checkNodeMeta(x, ops, res.Resps, lastNote, logLines); v != nil || err != nil {
					if v != nil {
						v.Step = i
						v.Detail = "batch:\n" + descReqs(reqs) + "\n" + v.Detail
					}
					return v, err
				}
			}
			if isDag {
				if v, err := c.checkDAG(x, ops, res.Resps); v != nil || err != nil {
					if v != nil {
						v.Step = i
						v.Detail = "batch:\n" + descReqs(reqs) + "\n" + v.Detail
					}
					return v, err
				}
			}
		case "annpar":
			v, err := c.annBatch(x, op, annModel)
			if err != nil {
				return nil, err
			}
			if v != nil {
				v.Step = i
				return v, nil
			}
		case "readall":
			if !x.D.Has(op.V) {
				continue
			}
			var reqs []proto.Req
			for _, k := range op.S {
				reqs = append(reqs, drv.GET("/api/node/"+x.uuid(op.V)+"/"+op.I+"/key/"+k))
			}
			resps, err := w.Seq(reqs)
			if err != nil {
				return nil, err
			}
			for j, k := range op.S {
				addOp(kvIn{"get", k, ""}, resps[j])
			}
		case "commitall":
			for _, vi := range x.D.Sorted() {
				n := x.D.Nodes[vi]
				if !n.Locked && !(op.M > 0 && int64(vi) == op.M) {
					st, _, err := w.HTTP("POST", "/api/node/"+n.UUID+"/commit", []byte(`{}`))
					if err != nil {
						return nil, err
					}
					if st == 200 {
						n.Locked = true
					}
				}
			}
		default:
			// sequential set-up; what the child version inherits is the initial register state
			if op.Op == "newver" && sc.Family == "kv" {
				m := x.Insts["kv"]
				for _, k := range []string{"k1", "k2"} {
					if m == nil {
						break
					}
					rr := m.Resolve(x.D, op.V, k)
					val := ""
					if rr.Kind == ReadValue {
						val = rr.Val
					}
					if !inited[k] {
						inited[k] = true
						hist = append(hist, porcupine.Operation{Input: kvIn{"init", k, val}, Call: -2, Output: kvOut{}, Return: -1})
					}
				}
			}
			_, v, err := x.ApplyDAGOp(op)
			if err != nil {
				return nil, err
			}
			if v != nil {
				v.Step = i
				return v, nil
			}
		}
	}
	if len(hist) > 0 {
		res, _ := porcupine.CheckOperationsVerbose(kvRegisterModel, hist, 20*time.Second)
		switch res {
		case porcupine.Illegal:
			return &drv.Violation{Prop: "C11", Oracle: "kv-linearizability", Sig: "key-value history not linearizable",
				Detail: "no sequential order of the acknowledged requests explains this history (per-key register model):\n" + strings.Join(histDesc, "\n")}, nil
		case porcupine.Unknown:
			w.Stats.Probe("porcupine-inconclusive")
		default:
			w.Stats.Probe("porcupine-ok")
		}
	}
	w.Discard()
	return nil, nil
}

func opKinds(ops []drv.Op) string {
	var k []string
	for _, o := range ops {
		k = append(k, o.Op)
	}
	sort.Strings(k)
	return strings.Join(k, "+")
}

func descReqs(reqs []proto.Req) string {
	var sb strings.Builder
	for _, r := range reqs {
		fmt.Fprintf(&sb, "  %s: %s %s %s\n", r.Client, r.Method, r.URL, trunc(r.Body))
	}
	return sb.String()
}

func (C11) toReq(x *KVExec, s drv.Op) (proto.Req, bool) {
	rq := proto.Req{Client: s.C, Kind: "http"}
	switch s.Op {
	case "put", "del", "get":
		if !x.D.Has(s.V) {
			return rq, false
		}
		rq.URL = "/api/node/" + x.uuid(s.V) + "/" + s.I + "/key/" + s.K
		rq.Method = map[string]string{"put": "POST", "del": "DELETE", "get": "GET"}[s.Op]
		if s.Op == "put" {
			rq.Body = []byte(s.Val)
		}
	case "newver", "branch":
		if !x.D.Has(s.V) {
			return rq, false
		}
		rq.Method = "POST"
		m := map[string]interface{}{"note": "n"}
		if s.Op == "branch" {
			m["branch"] = s.Br
			rq.URL = "/api/node/" + x.uuid(s.V) + "/branch"
		} else {
			rq.URL = "/api/node/" + x.uuid(s.V) + "/newversion"
		}
		rq.Body = jsonBody(m)
	case "commit":
		if !x.D.Has(s.V) {
			return rq, false
		}
		rq.Method, rq.URL, rq.Body = "POST", "/api/node/"+x.uuid(s.V)+"/commit", []byte(`{}`)
	case "note", "log", "info", "getlog":
		if !x.D.Has(s.V) {
			return rq, false
		}
		switch s.Op {
		case "note":
			rq.Method, rq.URL, rq.Body = "POST", "/api/node/"+x.uuid(s.V)+"/note", jsonBody(map[string]interface{}{"note": "<" + s.Val + ">"})
		case "log":
			rq.Method, rq.URL, rq.Body = "POST", "/api/node/"+x.uuid(s.V)+"/log", jsonBody(map[string]interface{}{"log": []string{"<" + s.Val + ">"}})
		case "info":
			rq.Method, rq.URL = "GET", "/api/repo/"+x.uuid(s.V)+"/info"
		case "getlog":
			rq.Method, rq.URL = "GET", "/api/node/"+x.uuid(s.V)+"/log"
		}
	case "infos":
		rq.Method, rq.URL = "GET", "/api/repos/info"
	case "mkinst":
		if !x.D.Has(s.V) {
			return rq, false
		}
		rq.Method, rq.URL, rq.Body = "POST", "/api/repo/"+x.uuid(s.V)+"/instance", jsonBody(map[string]interface{}{"typename": "keyvalue", "dataname": s.I})
	case "merge":
		var ps []string
		for _, p := range s.Ps {
			if !x.D.Has(p) {
				return rq, false
			}
			ps = append(ps, x.uuid(p))
		}
		rq.Method, rq.URL = "POST", "/api/repo/"+ps[0]+"/merge"
		rq.Body = jsonBody(map[string]interface{}{"mergeType": "conflict-free", "parents": ps})
	default:
		return rq, false
	}
	return rq, true
}

// annBatch: concurrent element posts and deletes at distinct positions of one block commute, so afterwards the
// block, the tag lists and the all-elements listing hold exactly the acknowledged elements.
func (c C11) annBatch(x *KVExec, op drv.Op, model map[[3]int]string) (*drv.Violation, error) {
	w := x.W
	base := "/api/node/" + x.uuid(0) + "/ann"
	var reqs []proto.Req
	for _, s := range op.Sub {
		rq := proto.Req{Client: s.C, Kind: "http"}
		if s.Op == "eldel" {
			rq.Method, rq.URL = "DELETE", fmt.Sprintf("%s/element/%d_%d_%d", base, s.P[0][0], s.P[0][1], s.P[0][2])
		} else {
			var els []map[string]interface{}
			for _, p := range s.P {
				els = append(els, map[string]interface{}{"Pos": p, "Kind": "Note", "Tags": []string{s.Val}, "Prop": map[string]string{"who": s.C}})
			}
			eb, _ := json.Marshal(els)
			rq.Method, rq.URL, rq.Body = "POST", base+"/elements", eb
		}
		reqs = append(reqs, rq)
	}
	if len(reqs) == 0 {
		return nil, nil
	}
	res, err := w.Batch(reqs, "barrier")
	if err != nil {
		return nil, err
	}
	if res.Wedged {
		return nil, w.ClassifyWedge("concurrent annotation element edits\n"+descReqs(reqs), res.Stacks)
	}
	for j, s := range op.Sub {
		if res.Resps[j].Status != 200 {
			continue
		}
		if s.Op == "eldel" {
			delete(model, [3]int{s.P[0][0], s.P[0][1], s.P[0][2]})
		} else {
			for _, p := range s.P {
				model[[3]int{p[0], p[1], p[2]}] = s.Val
			}
		}
	}
	if err := w.Barrier(); err != nil {
		return nil, err
	}
	type el struct {
		Pos  [3]int
		Tags []string
	}
	want := func(tag string) string {
		var ps []string
		for p, t := range model {
			if tag == "" || t == tag {
				ps = append(ps, fmt.Sprint(p))
			}
		}
		sort.Strings(ps)
		return strings.Join(ps, " ")
	}
	got := func(els []el) string {
		var ps []string
		for _, e := range els {
			ps = append(ps, fmt.Sprint(e.Pos))
		}
		sort.Strings(ps)
		return strings.Join(ps, " ")
	}
	reads := []struct{ url, tag string }{{base + "/elements/200_200_200/0_0_0", ""}, {base + "/tag/t1", "t1"}, {base + "/tag/t2", "t2"}}
	for _, rd := range reads {
		st, b, err := w.HTTP("GET", rd.url, nil)
		if err != nil {
			return nil, err
		}
		var els []el
		if st != 200 || (string(b) != "null" && json.Unmarshal(b, &els) != nil) {
			return &drv.Violation{Prop: "C11", Oracle: "acked-elements-present", Sig: "annotation read fails after concurrent element edits", Detail: fmt.Sprintf("GET %s -> %d %s", rd.url, st, trunc(b))}, nil
		}
		if g, wnt := got(els), want(rd.tag); g != wnt {
			what := "block"
			if rd.tag != "" {
				what = "tag list"
			}
			return &drv.Violation{Prop: "C11", Oracle: "acked-elements-present", Sig: "acknowledged annotation elements lost or resurrected after concurrent edits (" + what + ")",
				Detail: fmt.Sprintf("batch:\n%sGET %s\n holds    %s\n expected %s", descReqs(reqs), rd.url, g, wnt)}, nil
		}
	}
	w.Stats.Probe("annotation-batch-checked")
	return nil, nil
}

// checkNodeMeta: every acknowledged note/log post of a concurrent batch took effect - the note is one of the
// notes acknowledged in the batch (or the earlier one if none was), the log holds every acknowledged line.
func (C11) checkNodeMeta(x *KVExec, ops []drv.Op, resps []proto.Resp, lastNote map[int]string, logLines map[int][]string) (*drv.Violation, error) {
	notes := map[int][]string{}
	touched := map[int]bool{}
	created := map[string]int{}
	for j, s := range ops {
		if resps[j].Status != 200 {
			continue
		}
		switch s.Op {
		case "mkinst":
			created[s.I]++
			if created[s.I] > 1 {
				return &drv.Violation{Prop: "C11", Oracle: "acked-instance-unique", Sig: "two concurrent requests creating a data instance of one name are both acknowledged",
					Detail: fmt.Sprintf("instance %q: both POST /api/repo/<root>/instance answered 200; the second replaces the first in the repo's instance map", s.I)}, nil
			}
			x.W.Stats.Probe("concurrent-instance-creation")
		case "note":
			notes[s.V] = append(notes[s.V], "<"+s.Val+">")
			touched[s.V] = true
		case "log":
			logLines[s.V] = append(logLines[s.V], "<"+s.Val+">")
			touched[s.V] = true
		}
	}
	var vs []int
	for v := range touched {
		vs = append(vs, v)
	}
	sort.Ints(vs)
	for _, v := range vs {
		st, b, err := x.W.HTTP("GET", "/api/node/"+x.uuid(v)+"/note", nil)
		if err != nil {
			return nil, err
		}
		var got struct{ Note string }
		if st != 200 || json.Unmarshal(b, &got) != nil {
			return &drv.Violation{Prop: "C11", Oracle: "acked-node-meta", Sig: "node note unreadable after concurrent batch", Detail: fmt.Sprintf("%d %s", st, trunc(b))}, nil
		}
		want := notes[v]
		if _, known := lastNote[v]; len(want) == 0 && !known {
			lastNote[v] = got.Note // the note the version was created with
		}
		if len(want) == 0 {
			want = []string{lastNote[v]}
		}
		ok := false
		for _, n := range want {
			if n == got.Note {
				ok = true
			}
		}
		if !ok {
			return &drv.Violation{Prop: "C11", Oracle: "acked-node-meta", Sig: "node note is none of the acknowledged notes", Detail: fmt.Sprintf("note of %s reads %q; acknowledged candidates %q", x.uuid(v), got.Note, want)}, nil
		}
		lastNote[v] = got.Note
		st, b, err = x.W.HTTP("GET", "/api/node/"+x.uuid(v)+"/log", nil)
		if err != nil {
			return nil, err
		}
		var gl struct{ Log []string }
		if st != 200 || json.Unmarshal(b, &gl) != nil {
			return &drv.Violation{Prop: "C11", Oracle: "acked-node-meta", Sig: "node log unreadable after concurrent batch", Detail: fmt.Sprintf("%d %s", st, trunc(b))}, nil
		}
		for _, line := range logLines[v] {
			n := 0
			for _, g := range gl.Log {
				if strings.Contains(g, line) {
					n++
				}
			}
			if n != 1 {
				return &drv.Violation{Prop: "C11", Oracle: "acked-node-meta", Sig: "acknowledged node log line lost or duplicated", Detail: fmt.Sprintf("log of %s holds line %q %d times: %q", x.uuid(v), line, n, gl.Log)}, nil
			}
		}
		x.W.Stats.Probe("node-meta-after-concurrency-checked")
	}
	return nil, nil
}

// checkDAG: after a concurrent batch of version-graph requests the graph must be
// well formed (C07 invariants), every acknowledged child must be present under its
// parent, and a parent has at most one child per branch.
func (C11) checkDAG(x *KVExec, ops []drv.Op, resps []proto.Resp) (*drv.Violation, error) {
	st, body, err := x.W.HTTP("GET", "/api/repos/info", nil)
	if err != nil {
		return nil, err
	}
	if st != 200 {
		return &drv.Violation{Prop: "C11", Oracle: "dag-after-concurrency", Sig: "repos/info fails after concurrent batch", Detail: trunc(body)}, nil
	}
	repos, err := parseRepos(body)
	if err != nil {
		return &drv.Violation{Prop: "C11", Oracle: "dag-after-concurrency", Sig: "repos/info unparseable after concurrent batch", Detail: trunc(body)}, nil
	}
	if class, det := graphInvariants(repos); class != "" {
		return &drv.Violation{Prop: "C11", Oracle: "dag-after-concurrency", Sig: "graph malformed after concurrent " + opKinds(ops) + ": " + class, Detail: det + "\n" + normGraph(repos)}, nil
	}
	all := map[string]*c7Node{}
	byV := map[int]*c7Node{}
	for _, r := range repos {
		for u, n := range r.DAG.Nodes {
			all[u] = n
			byV[n.VersionID] = n
		}
	}
	for j, s := range ops {
		if (s.Op == "newver" || s.Op == "branch" || s.Op == "merge") && resps[j].Status == 200 {
			cu := childUUID(resps[j].Body)
			cn := all[cu]
			if cn == nil {
				return &drv.Violation{Prop: "C11", Oracle: "acked-child-present", Sig: "acknowledged new version missing from the graph", Detail: fmt.Sprintf("%s answered 200 child %s, which is not in repos/info\n%s", s.Op, cu, normGraph(repos))}, nil
			}
			parents := s.Ps
			if s.Op != "merge" {
				parents = []int{s.V}
			}
			for _, p := range parents {
				pn := all[x.uuid(p)]
				if pn == nil || !containsInt(pn.Children, cn.VersionID) {
					return &drv.Violation{Prop: "C11", Oracle: "acked-child-present", Sig: "acknowledged new version missing from its parent's children", Detail: fmt.Sprintf("%s answered 200 child %s; parent %s children do not list it\n%s", s.Op, cu, x.uuid(p), normGraph(repos))}, nil
				}
			}
		}
	}
	_ = json.Marshal
	return nil, nil
}

func (C11) NonTrivial(sc *drv.Scenario, st *drv.RunStats) bool { return st.Decisions > 0 }
