package props

import (
	"bytes"
	"compress/gzip"
	"encoding/binary"
	"encoding/json"
	"errors"
	"fmt"
	"io"
	"math/rand/v2"
	"regexp"
	"sort"
	"strings"
	"time"

	"verif/sim/drv"
	"verif/sim/proto"
)

// C20 — no request can crash the server; malformed ones are rejected harmlessly.
type C20 struct{ drv.CheckBase }

func init() { drv.Register(&C20{}) }

func (C20) ID() string    { return "C20" }
func (C20) Level() string { return "exploration" }
func (C20) Rule() string {
	return "each run: a repository with one populated instance of every exercised type (labelmap with synced annotation and labelsz, keyvalue, neuronjson, roi, uint8blk), committed root and an open child version. " +
		"Valid payloads for every ingestion and mutation endpoint are taken from the server itself (GET blocks, indices, index, sparsevol) or built by the catalogue (raw volumes, annotation elements and blocks, key-values, protobuf key-values and mappings, neuron annotations, ROI spans, merge/cleave/renumber lists) " +
		"and delivered to the open version damaged by a seeded operator: truncation at boundary and random offsets, bit flips, garbage runs, length-field inflation/deflation in block streams, " +
		"re-compressed label blocks whose embedded counts and table indices were altered (sub-block grid, label count, per-sub-block counts, indices beyond the table, truncated tables), inflated span counts and run lengths in sparse volumes, " +
		"JSON with huge/negative/non-numeric/null numbers and broken structure; plus syntactically hostile URLs (huge sizes, negative and non-numeric coordinates, label 0 and 2^64-1, missing path parts) for GET and POST. " +
		"After every hostile request, with background goroutines drained by the seeded scheduler: the process must be alive, the answer must not be a recovered panic (500 'Panic detected'), a trivial request and a well-formed write to the same instance must be served (a later request that hangs is a violation; a hostile request that only hangs itself is not); " +
		"after every few requests the complete catalogue snapshot of everything the requests did not address - all other instances at all versions and the target instance at the committed version - must be unchanged. " +
		"Requests that replace one value as a whole (node note, node log, label index POST) are also judged on their own target: answered with a client error, the value must read back as before. " +
		"A store-errors family sends well-formed mutations and reads of every type while one store call of the request (the n-th read, write, delete or range call) returns an injected error: the request may fail, the server must not die, wedge or answer with a recovered panic, and later requests are served. " +
		"The same monitor (panic-500, process death, wedge) runs inside every other property's check on its well-formed workload. " +
		"non-trivial = at least 6 hostile requests of at least 3 payload kinds delivered; distinct = distinct (steps, schedule) hash"
}
func (C20) Assumptions() []string { return commonAssumptions }
func (C20) Budget(tier string) (int, time.Duration) {
	return budget(tier, 120, 8000, 100*time.Second, 30*time.Minute)
}
func (C20) AllowsPanic500(sc *drv.Scenario) bool { return true } // judged per request below

var c20Kinds = []string{
	"seg-blocks", "seg-blocks", "seg-blocks", "seg-ingest-supervoxels", "seg-raw", "seg-raw-compressed", "seg-split", "seg-split-supervoxel", "seg-indices", "seg-index", "seg-mappings",
	"seg-merge", "seg-cleave", "seg-renumber", "ann-elements", "ann-blocks", "ann-move", "kv-key", "kv-keyvalues", "nj-key", "nj-keyvalues", "nj-delete", "nj-stamps", "roi-roi", "roi-ptquery", "gray-raw", "gray-blocks", "url", "url", "node-note", "node-log", "nj-jsonschema",
}

func (C20) Generate(r *rand.Rand, tier string, idx int) *drv.Scenario {
	seed := func() int64 { return int64(r.Uint64N(1 << 40)) }
	steps := []drv.Op{{Op: "c20setup", N: seed()}}
	if idx%12 == 5 {
		// enumeration family: every hostile URL of one slice of the list x {GET, POST, DELETE}
		nsl := 4
		steps = append(steps, drv.Op{Op: "urlsweep", N: int64((idx / 12) % nsl), M: int64(nsl)}, drv.Op{Op: "c20check"})
		k := baseKnobs(r)
		k.AllowSplit = true
		return &drv.Scenario{Family: "url-sweep", Knobs: k, Steps: steps, Fixed: 1}
	}
	if idx%12 == 7 || idx%12 == 11 {
		// store-error family: well-formed requests of every type, each meeting one failing store call (read, write,
		// delete or range: a disk error or a full disk).  The request may fail; the server may not die, wedge or panic.
		for i := 0; i < 10+r.IntN(8); i++ {
			steps = append(steps, drv.Op{Op: "faulty", K: pick(r, []string{"seg", "seg", "seg", "ann", "ann", "kv", "nj", "roi", "gray"}), N: seed(),
				F: &proto.FaultPlan{ErrAtOp: 1 + r.IntN(8), ErrMatch: pick(r, []string{"", "Put", "Get", "Delete", "Range", "Put", ""})}})
		}
		steps = append(steps, drv.Op{Op: "c20check"})
		k := baseKnobs(r)
		k.AllowSplit = true
		return &drv.Scenario{Family: "store-errors", Knobs: k, Steps: steps, Fixed: 1}
	}
	n := 8 + r.IntN(10)
	// swarm: each run concentrates on a few payload kinds
	var kinds []string
	for i := 0; i < 2+r.IntN(4); i++ {
		kinds = append(kinds, pick(r, c20Kinds))
	}
	for i := 0; i < n; i++ {
		steps = append(steps, drv.Op{Op: "hostile", K: pick(r, kinds), N: seed()})
		if i%5 == 4 {
			steps = append(steps, drv.Op{Op: "c20check"})
		}
	}
	steps = append(steps, drv.Op{Op: "c20check"})
	k := baseKnobs(r)
	k.AllowSplit = true
	return &drv.Scenario{Family: "hostile-payloads", Knobs: k, Steps: steps, Fixed: 1}
}

type c20Exec struct {
	w       *drv.World
	e       *c2Exec
	head    int
	base    *Snapshot
	touched map[string]bool // instances addressed at the head version since the last snapshot
	kinds   map[string]bool
}

func instOfKind(kind string) string {
	switch strings.SplitN(kind, "-", 2)[0] {
	case "seg":
		return "seg"
	case "ann":
		return "ann"
	case "kv":
		return "kv"
	case "nj":
		return "nj"
	case "roi":
		return "roi"
	case "gray":
		return "gray"
	}
	return ""
}

// ---- mutation operators ----

func mutGeneric(r *rand.Rand, b []byte) ([]byte, string) {
	if len(b) == 0 {
		return []byte{byte(r.IntN(256))}, "one garbage byte instead of an empty body"
	}
	switch r.IntN(7) {
	case 0:
		k := pick(r, []int{0, 1, len(b) / 2, len(b) - 1, r.IntN(len(b))})
		return append([]byte(nil), b[:k]...), fmt.Sprintf("truncated to %d of %d bytes", k, len(b))
	case 1:
		out := append([]byte(nil), b...)
		n := 1 + r.IntN(4)
		for i := 0; i < n; i++ {
			p := r.IntN(len(out))
			out[p] ^= 1 << uint(r.IntN(8))
		}
		return out, fmt.Sprintf("%d bit flips", n)
	case 2:
		out := append([]byte(nil), b...)
		p := r.IntN(len(out))
		for i := p; i < len(out) && i < p+8; i++ {
			out[i] = 0xff
		}
		return out, fmt.Sprintf("8 bytes of 0xff at %d", p)
	case 3:
		out := append([]byte(nil), b...)
		p := r.IntN(len(out))
		for i := p; i < len(out) && i < p+8; i++ {
			out[i] = 0
		}
		return out, fmt.Sprintf("8 zero bytes at %d", p)
	case 4:
		g := make([]byte, 1+r.IntN(40))
		for i := range g {
			g[i] = byte(r.IntN(256))
		}
		return append(append([]byte(nil), b...), g...), fmt.Sprintf("%d garbage bytes appended", len(g))
	case 5:
		// overwrite an aligned 32-bit field with an extreme value
		out := append([]byte(nil), b...)
		if len(out) >= 4 {
			p := (r.IntN(len(out)-3) / 4) * 4
			v := pick(r, []uint32{0, 0xffffffff, 0x7fffffff, 0x80000000, 1 << 24})
			binary.LittleEndian.PutUint32(out[p:], v)
			return out, fmt.Sprintf("32-bit field at %d set to %#x", p, v)
		}
		return out[:0], "emptied"
	default:
		g := make([]byte, 1+r.IntN(200))
		for i := range g {
			g[i] = byte(r.IntN(256))
		}
		return g, fmt.Sprintf("%d random bytes", len(g))
	}
}

type streamBlock struct {
	c    [3]int32
	data []byte
}

func parseBlockStream(b []byte) []streamBlock {
	var out []streamBlock
	for len(b) >= 16 {
		var sb streamBlock
		for i := 0; i < 3; i++ {
			sb.c[i] = int32(binary.LittleEndian.Uint32(b[4*i:]))
		}
		n := int(int32(binary.LittleEndian.Uint32(b[12:])))
		if n < 0 || 16+n > len(b) {
			break
		}
		sb.data = b[16 : 16+n]
		out = append(out, sb)
		b = b[16+n:]
	}
	return out
}

func encodeBlockStream(bs []streamBlock, lenOverride map[int]int32) []byte {
	var out []byte
	for i, sb := range bs {
		var h [16]byte
		for k := 0; k < 3; k++ {
			binary.LittleEndian.PutUint32(h[4*k:], uint32(sb.c[k]))
		}
		n := int32(len(sb.data))
		if o, ok := lenOverride[i]; ok {
			n = o
		}
		binary.LittleEndian.PutUint32(h[12:], uint32(n))
		out = append(out, h[:]...)
		out = append(out, sb.data...)
	}
	return out
}

func gunzipBytes(b []byte) ([]byte, error) {
	zr, err := gzip.NewReader(bytes.NewReader(b))
	if err != nil {
		return nil, err
	}
	return io.ReadAll(zr)
}
func gzipBytes(b []byte) []byte {
	var buf bytes.Buffer
	zw := gzip.NewWriter(&buf)
	zw.Write(b)
	zw.Close()
	return buf.Bytes()
}

// mutBlockStream damages a valid label block stream in a format-aware way.
func mutBlockStream(r *rand.Rand, b []byte) ([]byte, string) {
	bs := parseBlockStream(b)
	if len(bs) == 0 || r.IntN(4) == 0 {
		return mutGeneric(r, b)
	}
	i := r.IntN(len(bs))
	switch r.IntN(8) {
	case 0:
		n := int32(len(bs[i].data))
		v := pick(r, []int32{n + 1, n - 1, 0, -1, 0x7fffffff, n * 2})
		return encodeBlockStream(bs, map[int]int32{i: v}), fmt.Sprintf("length field of block %d set to %d (real %d)", i, v, n)
	case 1:
		bs[i].c[r.IntN(3)] = pick(r, []int32{-1, -1000000, 0x7fffffff, -0x80000000})
		return encodeBlockStream(bs, nil), fmt.Sprintf("block %d coordinate set to %v", i, bs[i].c)
	case 2:
		bs[i].data = append([]byte("not gzip at all"), bs[i].data...)
		return encodeBlockStream(bs, nil), fmt.Sprintf("block %d is not gzip", i)
	case 3:
		full := encodeBlockStream(bs, nil)
		k := len(full) - 1 - r.IntN(min(len(bs[len(bs)-1].data)+8, len(full)-1))
		return full[:k], fmt.Sprintf("stream of %d blocks cut inside the last block (%d of %d bytes)", len(bs), k, len(full))
	}
	inner, err := gunzipBytes(bs[i].data)
	if err != nil || len(inner) < 24 {
		return mutGeneric(r, b)
	}
	in := append([]byte(nil), inner...)
	numLabels := binary.LittleEndian.Uint32(in[12:])
	gx, gy, gz := binary.LittleEndian.Uint32(in[0:]), binary.LittleEndian.Uint32(in[4:]), binary.LittleEndian.Uint32(in[8:])
	var what string
	switch r.IntN(7) {
	case 0:
		v := pick(r, []uint32{0, numLabels + 1, numLabels + 1000, 0xffffffff, 1 << 28})
		binary.LittleEndian.PutUint32(in[12:], v)
		what = fmt.Sprintf("label count %d -> %d", numLabels, v)
	case 1:
		a := r.IntN(3)
		v := pick(r, []uint32{0, 1, 9, 33, 0xffffffff, 1 << 20})
		binary.LittleEndian.PutUint32(in[4*a:], v)
		what = fmt.Sprintf("sub-block grid %dx%dx%d axis %d -> %d", gx, gy, gz, a, v)
	case 2:
		// a per-sub-block label count
		pos := 16 + int(numLabels)*8
		nsb := int(gx * gy * gz)
		if numLabels > 1 && pos+2*nsb <= len(in) && nsb > 0 {
			j := r.IntN(nsb)
			v := pick(r, []uint16{0, 1, 2, 513, 0xffff, 300})
			old := binary.LittleEndian.Uint16(in[pos+2*j:])
			binary.LittleEndian.PutUint16(in[pos+2*j:], v)
			what = fmt.Sprintf("label count of sub-block %d: %d -> %d", j, old, v)
		} else {
			in = in[:len(in)/2]
			what = "block serialization cut in half"
		}
	case 3:
		// a sub-block index beyond the label table
		pos := 16 + int(numLabels)*8
		nsb := int(gx * gy * gz)
		if numLabels > 1 && pos+2*nsb+4 <= len(in) {
			p := pos + 2*nsb
			tot := 0
			for j := 0; j < nsb; j++ {
				tot += int(binary.LittleEndian.Uint16(in[pos+2*j:]))
			}
			if tot > 0 && p+4*tot <= len(in) {
				j := r.IntN(tot)
				v := pick(r, []uint32{numLabels, numLabels + 7, 0xffffffff, 1 << 30})
				binary.LittleEndian.PutUint32(in[p+4*j:], v)
				what = fmt.Sprintf("sub-block index %d -> %d (table has %d labels)", j, v, numLabels)
				break
			}
		}
		in = in[:24]
		what = "block serialization cut to its header"
	case 4:
		k := 16 + r.IntN(len(in)-16)
		in = in[:k]
		what = fmt.Sprintf("block serialization cut to %d of %d bytes", k, len(inner))
	case 5:
		// labels 0 and 2^64-1 in the table
		if numLabels > 0 && 16+8 <= len(in) {
			binary.LittleEndian.PutUint64(in[16:], pick(r, []uint64{0, ^uint64(0)}))
			what = "first label of the table set to an extreme value"
		}
	default:
		in, what = mutGeneric(r, in)
		what = "inside the block serialization: " + what
	}
	bs[i].data = gzipBytes(in)
	return encodeBlockStream(bs, nil), fmt.Sprintf("block %d re-compressed with %s", i, what)
}

var reNum = regexp.MustCompile(`-?\d+(\.\d+)?`)

func mutJSON(r *rand.Rand, b []byte) ([]byte, string) {
	if r.IntN(3) == 0 || !reNum.Match(b) {
		switch r.IntN(4) {
		case 0:
			return append([]byte("["), b...), "wrapped in an unbalanced array"
		case 1:
			s := strings.NewReplacer("[", "{", "]", "}").Replace(string(b))
			return []byte(s), "arrays turned into objects"
		case 2:
			return pick(r, [][]byte{[]byte("null"), []byte("[]"), []byte("{}"), []byte("[7]"), []byte("[[]]"), []byte("0")}), "degenerate document"
		}
		return mutGeneric(r, b)
	}
	locs := reNum.FindAllIndex(b, -1)
	l := pick(r, locs)
	v := pick(r, []string{"1e40", "-1", "18446744073709551616", "18446744073709551615", "\"x\"", "null", "-2147483649", "4294967296", "0.5", "[]", "{}", "99999999999999999999999999"})
	out := append(append(append([]byte(nil), b[:l[0]]...), v...), b[l[1]:]...)
	return out, fmt.Sprintf("number %s replaced by %s", b[l[0]:l[1]], v)
}

func mutRLE(r *rand.Rand, b []byte) ([]byte, string) {
	if len(b) < 12+16 || r.IntN(4) == 0 {
		return mutGeneric(r, b)
	}
	out := append([]byte(nil), b...)
	n := binary.LittleEndian.Uint32(out[8:])
	switch r.IntN(5) {
	case 0:
		v := pick(r, []uint32{n + 1, n * 1000, 0xffffffff, 0})
		binary.LittleEndian.PutUint32(out[8:], v)
		return out, fmt.Sprintf("span count %d -> %d", n, v)
	case 1:
		j := r.IntN(int(n))
		if 12+16*j+16 <= len(out) {
			v := pick(r, []uint32{0, 0xffffffff, 0x7fffffff, 1 << 30})
			binary.LittleEndian.PutUint32(out[12+16*j+12:], v)
			return out, fmt.Sprintf("run length of span %d -> %#x", j, v)
		}
	case 2:
		j := r.IntN(int(n))
		if 12+16*j+16 <= len(out) {
			a := r.IntN(3)
			v := pick(r, []uint32{0x7fffffff, 0x80000000, 0xffffff00})
			binary.LittleEndian.PutUint32(out[12+16*j+4*a:], v)
			return out, fmt.Sprintf("coordinate %d of span %d -> %#x", a, j, v)
		}
	case 3:
		out[1] = byte(pick(r, []int{0, 1, 2, 4, 255}))
		return out, fmt.Sprintf("dimension count -> %d", out[1])
	}
	return mutGeneric(r, b)
}

var hostileURLs = []string{
	"seg/raw/0_1_2/100000_100000_100000/0_0_0", "seg/raw/0_1_2/16_16_16/-16_-16_-16", "seg/raw/0_1_2/16_16_16/a_b_c", "seg/raw/0_1_2/-16_16_16/0_0_0", "seg/raw/0_1_2/0_0_0/0_0_0",
	"seg/raw/0_1/99999999_99999999/0_0_0", "seg/raw/9_9_9/1_1_1/0_0_0", "seg/raw/0_1_2/16_16/0_0_0", "seg/raw/0_1_2/4294967296_1_1/0_0_0", "seg/isotropic/0_1/10_10/0_0_0",
	"seg/label/0_0", "seg/label/x_y_z", "seg/label/2147483648_0_0", "seg/labels", "seg/sparsevol/0", "seg/sparsevol/18446744073709551615", "seg/sparsevol/-1", "seg/sparsevol/1?format=zzz&minx=abc",
	"seg/sparsevol/1?minx=9999999999&maxx=-9999999999", "seg/sparsevol-coarse/0", "seg/sparsevol-size/18446744073709551616", "seg/sparsevol-by-point/0_0", "seg/sparsevols-coarse/5/1", "seg/size/0", "seg/sizes",
	"seg/supervoxels/0", "seg/supervoxel-sizes/x", "seg/blocks/16_16_16/1_1_1", "seg/blocks/0_0_0/0_0_0", "seg/blocks/1600000_1600000_1600000/0_0_0?compression=zzz", "seg/specificblocks?blocks=1,2", "seg/specificblocks?blocks=a,b,c",
	"seg/specificblocks?blocks=2147483648,0,0&scale=99", "seg/raw/0_1_2/16_16_16/0_0_0?scale=200", "seg/index/0", "seg/index/18446744073709551615", "seg/indices", "seg/mapping", "seg/mappings?format=zzz", "seg/proximity", "seg/proximity/1", "seg/proximity/1,x",
	"seg/lastmod/0", "seg/history/1/zz/yy", "seg/mutations?userid=", "seg/mutations-range/5/1", "seg/tile/xy/0/0_0_0", "seg/pseudocolor/0_1/10_10/0_0_0", "seg/maxlabel/abc", "seg/nextlabel/-1", "seg/nextlabel/18446744073709551615", "seg/set-nextlabel/0",
	"seg/cleave/0", "seg/cleave/x", "seg/split/0", "seg/split-supervoxel/0?split=1&remain=1", "seg/split-supervoxel/18446744073709551615", "seg/merge", "seg/renumber",
	"ann/elements/10_10/0_0_0", "ann/elements/-5_-5_-5/0_0_0", "ann/elements/2147483647_2147483647_2147483647/-2147483648_-2147483648_-2147483648", "ann/blocks/x/y", "ann/label/0", "ann/label/18446744073709551616", "ann/tag/", "ann/roi/nosuch", "ann/roi/a,b,c",
	"ann/move/1_2/3_4_5", "ann/move/1_2_3/x", "ann/element/1_2", "ann/element/9999999999_0_0", "ann/scan?byCoord=zzz",
	"kv/key/", "kv/keyrange/z/a", "kv/keyrangevalues/a", "kv/keyvalues?jsontar=true&json=true", "kv/keyrange//", "kv/key/%00%ff",
	"nj/key/-1", "nj/key/abc", "nj/key/18446744073709551616", "nj/keyrange/9/1", "nj/keyrangevalues/a/b", "nj/fields?counts=zzz", "nj/query", "nj/all?fields=,,,&show=zzz", "nj/schema_batch",
	"roi/mask/0_1_2/100000_100000_100000/0_0_0", "roi/mask/0_1_2/-1_1_1/0_0_0", "roi/partition?batchsize=0", "roi/partition?batchsize=-5", "roi/partition?batchsize=abc&optimized=true", "roi/ptquery",
	"gray/raw/0_1_2/100000_100000_100000/0_0_0", "gray/raw/0_1/-5_5/0_0_0", "gray/raw/0_2/5_5/0_0", "gray/raw/1_2/70000_70000/0_0_0/jpg:9999", "gray/arb/0_0_0/1_0_0/0_1_0/0", "gray/arb/a/b/c/d", "gray/arb/0_0_0/1e300_0_0/0_1_0/1e-300",
	"gray/blocks/0_0_0/-1", "gray/blocks/0_0_0/1000000000", "gray/blocks/x/1", "gray/subvolblocks/16_16_16/1_1_1", "gray/subvolblocks/0_0_0/0_0_0", "gray/specificblocks?blocks=1", "gray/rawkey?x=a", "gray/isotropic/0_1/0_0/0_0_0",
	"lsz/count/0/AllSyn", "lsz/count/1/Nope", "lsz/top/-1/AllSyn", "lsz/top/99999999999/PreSyn", "lsz/threshold/x/AllSyn", "lsz/threshold/1/AllSyn?offset=-5&n=-7", "lsz/counts/AllSyn",
}

// every "<instance>/<endpoint>" of the list above is also requested bare, without the arguments its handler indexes
func init() {
	seen := map[string]bool{}
	for _, u := range hostileURLs {
		seen[u] = true
	}
	var extra []string
	for _, u := range hostileURLs {
		p := u
		if i := strings.IndexByte(p, '?'); i >= 0 {
			p = p[:i]
		}
		parts := strings.Split(p, "/")
		if len(parts) >= 3 {
			if b := parts[0] + "/" + parts[1]; !seen[b] {
				seen[b] = true
				extra = append(extra, b)
			}
		}
	}
	hostileURLs = append(hostileURLs, extra...)
}

// hostileNodeSpecs: malformed "<uuid>:<branch>~<n>" version specifications (%s = root uuid)
var hostileNodeSpecs = []string{"%s:master~-1", "%s:master~99999999999999999999", "%s:master~x", "%s:master~", "%s:", "%s:nosuch~0", "%s:master~0~0", ":master", "%s:master~2147483648", "%s~1", "%s:master:master"}

func (x *c20Exec) headBase(name string) string { return x.e.base(x.head, name) }

// buildHostile returns the request for one hostile step (valid payload damaged by a seeded operator).
func (x *c20Exec) buildHostile(kind string, r *rand.Rand) (rq proto.Req, what string, err error) {
	w := x.w
	seg, ann, kv, nj, roi, gray := x.headBase("seg"), x.headBase("ann"), x.headBase("kv"), x.headBase("nj"), x.headBase("roi"), x.headBase("gray")
	get := func(url string, body []byte) ([]byte, error) {
		st, b, err := w.HTTP("GET", url, body)
		if err != nil {
			return nil, err
		}
		if st != 200 {
			return nil, nil // no valid payload of this kind right now
		}
		return b, nil
	}
	switch kind {
	case "seg-blocks", "seg-ingest-supervoxels":
		var valid []byte
		if valid, err = get(seg+"/blocks/32_32_32/0_0_0?compression=blocks", nil); err != nil {
			return
		}
		// the server streams the blocks in whatever order its per-block goroutines finish: canonical order
		// first, so that one seed always damages the same block
		if bs := parseBlockStream(valid); len(bs) > 0 {
			sort.Slice(bs, func(i, j int) bool {
				a, b := bs[i].c, bs[j].c
				if a[2] != b[2] {
					return a[2] < b[2]
				}
				if a[1] != b[1] {
					return a[1] < b[1]
				}
				return a[0] < b[0]
			})
			valid = encodeBlockStream(bs, nil)
		}
		body, wh := mutBlockStream(r, valid)
		ep := "/blocks"
		if kind == "seg-ingest-supervoxels" {
			ep = "/ingest-supervoxels"
		}
		q := pick(r, []string{"", "", "?noindexing=true", "?downres=true", "?scale=1"})
		return post(seg+ep+q, body), fmt.Sprintf("block stream (%d bytes valid) %s", len(valid), wh), nil
	case "seg-raw":
		valid := labelBox(r, []uint64{uint64(1 + r.IntN(8)), uint64(20 + r.IntN(5))})
		body, wh := mutGeneric(r, valid)
		return post(seg+"/raw/0_1_2/16_16_16/0_0_0?mutate=true", body), "label volume " + wh, nil
	case "seg-raw-compressed":
		valid := labelBox(r, []uint64{3, 4})
		c := pick(r, []string{"lz4", "gzip"})
		body := valid
		wh := "uncompressed data sent as " + c
		if c == "gzip" && r.IntN(2) == 0 {
			body, wh = mutGeneric(r, gzipBytes(valid))
			wh = "gzip volume " + wh
		}
		return post(seg+"/raw/0_1_2/16_16_16/0_0_0?compression="+c, body), wh, nil
	case "seg-split", "seg-split-supervoxel":
		l := uint64(1 + r.IntN(8))
		q := ""
		if kind == "seg-split-supervoxel" {
			q = "?supervoxels=true"
		}
		var valid []byte
		if valid, err = get(fmt.Sprintf("%s/sparsevol/%d%s", seg, l, q), nil); err != nil {
			return
		}
		if len(valid) >= 12+32 {
			n := binary.LittleEndian.Uint32(valid[8:])
			half := n / 2
			if half > 0 {
				valid = append([]byte(nil), valid[:12+16*int(half)]...)
				binary.LittleEndian.PutUint32(valid[8:], half)
			}
		}
		body, wh := mutRLE(r, valid)
		ep := fmt.Sprintf("/split/%d", l)
		if kind == "seg-split-supervoxel" {
			ep = fmt.Sprintf("/split-supervoxel/%d", l)
		}
		return post(seg+ep, body), "sparse volume " + wh, nil
	case "seg-indices":
		var valid []byte
		if valid, err = get(seg+"/indices", jsonU64s([]uint64{1, 2, 3, 4, 5, 6, 7, 8})); err != nil {
			return
		}
		body, wh := mutGeneric(r, valid)
		return post(seg+"/indices", body), "label indices protobuf " + wh, nil
	case "seg-index":
		l := uint64(1 + r.IntN(8))
		var valid []byte
		if valid, err = get(fmt.Sprintf("%s/index/%d", seg, l), nil); err != nil {
			return
		}
		body, wh := mutGeneric(r, valid)
		return post(fmt.Sprintf("%s/index/%d", seg, l), body), "label index protobuf " + wh, nil
	case "seg-mappings":
		var op []byte
		op = append(op, 0x08)
		op = appendUvarint(op, uint64(r.IntN(1000)))
		op = append(op, 0x10)
		op = appendUvarint(op, uint64(1+r.IntN(8)))
		for i := 0; i < 1+r.IntN(3); i++ {
			op = append(op, 0x18)
			op = appendUvarint(op, uint64(30+r.IntN(10)))
		}
		valid := append([]byte{0x0a}, appendUvarint(nil, uint64(len(op)))...)
		valid = append(valid, op...)
		body, wh := mutGeneric(r, valid)
		return post(seg+"/mappings", body), "mappings protobuf " + wh, nil
	case "seg-merge":
		body, wh := mutJSON(r, jsonU64s([]uint64{uint64(1 + r.IntN(8)), uint64(1 + r.IntN(8)), uint64(1 + r.IntN(8))}))
		return post(seg+"/merge", body), "merge list " + wh, nil
	case "seg-cleave":
		body, wh := mutJSON(r, jsonU64s([]uint64{uint64(1 + r.IntN(8)), uint64(1 + r.IntN(8))}))
		return post(fmt.Sprintf("%s/cleave/%d", seg, 1+r.IntN(8)), body), "cleave list " + wh, nil
	case "seg-renumber":
		body, wh := mutJSON(r, jsonU64s([]uint64{uint64(60 + r.IntN(20)), uint64(1 + r.IntN(8))}))
		return post(seg+"/renumber", body), "renumber list " + wh, nil
	case "ann-elements":
		body, wh := mutJSON(r, elemJSON(r, 2))
		return post(ann+"/elements", body), "elements " + wh, nil
	case "ann-blocks":
		if r.IntN(3) == 0 {
			// a malformed block key
			key := pick(r, []string{"1,1", "7", "", "a,b,c", "1,2,3,4", "1,,2", ",", "-1,-1", "99999999999,0,0", " 1, 2, 3"})
			body := []byte(`{"0,0,0":` + string(elemJSON(r, 1)) + `,"` + key + `":` + string(elemJSON(r, 1)) + `}`)
			return post(ann+"/blocks", body), fmt.Sprintf("element blocks with block key %q", key), nil
		}
		body, wh := mutJSON(r, []byte(`{"0,0,0":`+string(elemJSON(r, 1))+`,"1,0,1":`+string(elemJSON(r, 1))+`}`))
		return post(ann+"/blocks", body), "element blocks " + wh, nil
	case "nj-jsonschema":
		// a valid JSON schema first, then a damaged one: refused, it must not have replaced the stored one
		valid := []byte(fmt.Sprintf(`{"$schema":"http://json-schema.org/draft-07/schema#","type":"object","properties":{"bodyid":{"type":"integer"},"group":{"type":"integer","minimum":%d}}}`, -r.IntN(100)))
		if st, b, err := w.HTTP("POST", nj+"/json_schema", valid); err != nil {
			return rq, "", err
		} else if st != 200 {
			return rq, "", fmt.Errorf("%w: valid POST json_schema refused: %d %s", drv.ErrInfra, st, trunc(b))
		}
		var body []byte
		var wh string
		switch r.IntN(4) {
		case 0:
			body, wh = valid[:len(valid)/2], "truncated in the middle"
		case 1:
			body, wh = []byte(`{"type":"objekt","properties":7}`), "unknown type and a number for properties"
		case 2:
			body, wh = []byte(`{"type":"object","properties":{"bodyid":{"type":"integer","minimum":"x"}}}`), "a string for minimum"
		default:
			body, wh = mutJSON(r, valid)
		}
		return post(nj+"/json_schema", body), "neuron JSON schema " + wh, nil
	case "ann-move":
		c := func() string {
			return pick(r, []string{fmt.Sprintf("%d_%d_%d", r.IntN(32), r.IntN(32), r.IntN(32)), "1_2", "x_y_z", "-2147483649_0_0", "1_2_3_4", ""})
		}
		return post(ann+"/move/"+c()+"/"+c(), nil), "move with odd coordinates", nil
	case "kv-key":
		body, wh := mutGeneric(r, []byte(`{"some":"value"}`))
		return post(kv+"/key/"+pick(r, []string{"a", "hostile", "x/y", "%ff"}), body), "value " + wh, nil
	case "kv-keyvalues":
		body, wh := mutGeneric(r, protoKV("d", []byte("w1")))
		return post(kv+"/keyvalues", body), "key-values protobuf " + wh, nil
	case "nj-key":
		id := 10 + r.IntN(4)
		body, wh := mutJSON(r, []byte(fmt.Sprintf(`{"bodyid":%d,"type":"t1","status":"s","n":7}`, id)))
		return post(fmt.Sprintf("%s/key/%d?u=sim", nj, id), body), "neuron annotation " + wh, nil
	case "nj-delete":
		// well-formed: DELETE of a key that exists, does not exist, or was already deleted
		id := pick(r, []int{10, 11, 12, 13, 99, 100000, 0})
		return del(fmt.Sprintf("%s/key/%d", nj, id)), "DELETE of a present or absent key", nil
	case "nj-stamps":
		// the reserved <field>_time / <field>_user companions with values of the wrong type
		id := 10 + r.IntN(4)
		f := pick(r, []string{"type", "status", "x"})
		v := pick(r, []string{"5", "null", "[1]", "{}", "true", "1e99"})
		sfx := pick(r, []string{"_time", "_user"})
		body := fmt.Sprintf(`{"bodyid":%d,"%s":"v","%s%s":%s}`, id, f, f, sfx, v)
		return post(fmt.Sprintf("%s/key/%d?u=sim", nj, id), []byte(body)), "neuron annotation with a " + sfx + " companion of JSON type " + v, nil
	case "nj-keyvalues":
		body, wh := mutGeneric(r, protoKV("12", []byte(`{"bodyid":12,"type":"kvs"}`)))
		return post(nj+"/keyvalues?u=sim", body), "neuron annotations protobuf " + wh, nil
	case "roi-roi":
		valid := []byte(fmt.Sprintf("[[%d,0,0,1],[%d,1,%d,1]]", r.IntN(2), r.IntN(2), r.IntN(2)))
		var body []byte
		var wh string
		if r.IntN(3) == 0 {
			body, wh = []byte(fmt.Sprintf("[[0,0,%d,%d],[0,1,0,1]]", 5+r.IntN(5), r.IntN(5))), "span with x1 < x0"
		} else {
			body, wh = mutJSON(r, valid)
		}
		return post(roi+"/roi", body), "ROI spans " + wh, nil
	case "roi-ptquery":
		body, wh := mutJSON(r, []byte("[[1,1,1],[20,20,20],[100,1,1]]"))
		return post(roi+"/ptquery", body), "point query " + wh, nil
	case "gray-raw":
		b := make([]byte, catB*catB*catB)
		body, wh := mutGeneric(r, b)
		return post(gray+"/raw/0_1_2/16_16_16/0_0_0?mutate=true", body), "grayscale volume " + wh, nil
	case "gray-blocks":
		b := make([]byte, 2*catB*catB*catB)
		body, wh := mutGeneric(r, b)
		return post(fmt.Sprintf("%s/blocks/%d_0_0/%d", gray, -1+r.IntN(3), pick(r, []int{2, 3, 0, -1, 1000000})), body), "grayscale blocks " + wh, nil
	case "node-note", "node-log":
		// node-level JSON bodies: a valid one first so that there is something to lose, then a damaged one
		ep, valid := "/note", []byte(fmt.Sprintf(`{"note":"kept %d"}`, r.IntN(1000)))
		if kind == "node-log" {
			ep, valid = "/log", []byte(fmt.Sprintf(`{"log":["kept %d","and %d"]}`, r.IntN(1000), r.IntN(1000)))
		}
		at := "/api/node/" + x.e.x.uuid(x.head) + ep
		if st, b, err := w.HTTP("POST", at, valid); err != nil {
			return rq, "", err
		} else if st != 200 {
			return rq, "", fmt.Errorf("%w: valid POST %s refused: %d %s", drv.ErrInfra, at, st, trunc(b))
		}
		var body []byte
		var wh string
		switch r.IntN(4) {
		case 0:
			body, wh = []byte(`{"text":"no such field"}`), "object without the expected member"
		case 1:
			body, wh = []byte(`{}`), "empty object"
		default:
			body, wh = mutJSON(r, valid)
		}
		return post(at, body), "node " + ep[1:] + " " + wh, nil
	case "url":
		u := pick(r, hostileURLs)
		m := pick(r, []string{"GET", "GET", "POST", "DELETE"})
		var body []byte
		if m == "POST" || r.IntN(3) == 0 {
			body = pick(r, [][]byte{nil, []byte("[]"), []byte("{}"), []byte("[1,2,3]"), []byte("\x00\x01\x02")})
		}
		return proto.Req{Client: "c0", Kind: "http", Method: m, URL: "/api/node/" + x.e.x.uuid(x.head) + "/" + u, Body: body}, "hostile URL", nil
	}
	return rq, "", fmt.Errorf("%w: unknown hostile kind %q", drv.ErrInfra, kind)
}

func (x *c20Exec) followUp(inst string, r *rand.Rand) proto.Req {
	b := x.headBase(inst)
	switch inst {
	case "seg":
		return post(b+"/raw/0_1_2/16_16_16/16_16_16?mutate=true", labelBox(r, []uint64{5, 6}))
	case "ann":
		return post(b+"/elements", elemJSON(r, 1))
	case "kv":
		return post(b+"/key/follow", []byte("up"))
	case "nj":
		return post(b+"/key/13?u=sim", []byte(`{"bodyid":13,"type":"follow"}`))
	case "roi":
		return post(b+"/roi", []byte("[[0,0,0,1]]"))
	case "gray":
		return post(b+"/raw/0_1_2/16_16_16/16_16_16?mutate=true", make([]byte, catB*catB*catB))
	}
	return drv.GET("/api/server/info")
}

func (x *c20Exec) snap() (*Snapshot, error) {
	return TakeSnapshot(x.w, SnapOpts{SkipRepoInfo: true})
}

func (x *c20Exec) dropTouched(s *Snapshot) {
	hu := x.e.x.uuid(x.head)
	var order []string
	for _, k := range s.Order {
		drop := false
		for inst := range x.touched {
			if strings.Contains(k, "/node/"+hu+"/"+inst+"/") || strings.Contains(k, "/node/"+hu+"/"+inst+" ") {
				drop = true
			}
		}
		if drop {
			delete(s.Entries, k)
			continue
		}
		order = append(order, k)
	}
	s.Order = order
}

func (C20) Execute(sc *drv.Scenario, w *drv.World) (*drv.Violation, error) {
	if _, err := w.Start(); err != nil {
		return nil, err
	}
	e := &c2Exec{w: w, x: NewKVExec(w), snaps: map[int]*Snapshot{}}
	x := &c20Exec{w: w, e: e, touched: map[string]bool{}, kinds: map[string]bool{}}
	viol := func(oracle, sig, detail string, step int) *drv.Violation {
		return &drv.Violation{Prop: "C20", Oracle: oracle, Sig: sig, Detail: detail, Step: step}
	}
	for i, op := range sc.Steps {
		w.CurStep = i
		switch op.Op {
		case "c20setup":
			if err := (C02{}).setup(e, op); err != nil {
				var he *drv.HungError
				if errors.As(err, &he) && e.x.D.Has(0) {
					// a well-formed set-up request never completed although the server answers trivial requests:
					// if well-formed writes to an instance are not served any more either, that instance is wedged
					x.head = 0
					for _, inst := range []string{"seg", "ann", "kv", "nj", "roi", "gray"} {
						lr := x.followUp(inst, drv.NewRNG(uint64(op.N)+11))
						res, e2 := w.Batch([]proto.Req{lr}, "barrier")
						if e2 == nil && res.Wedged {
							return viol("later-request", "a well-formed request after a well-formed one that hangs is never served ("+inst+")",
								fmt.Sprintf("set-up request hangs: %s\nthe following %s %s never completes either\n%s", he.What, lr.Method, lr.URL, trimTo(res.Stacks, 5000)), i), nil
						}
					}
				}
				return nil, err
			}
			if _, _, err := e.x.ApplyDAGOp(drv.Op{Op: "newver", V: 0, N: 1}); err != nil {
				return nil, err
			}
			if !e.x.D.Has(1) {
				return nil, fmt.Errorf("%w: could not open a child version", drv.ErrInfra)
			}
			x.head = 1
			s, err := x.snap()
			if err != nil {
				return nil, err
			}
			x.base = s
		case "c20check":
			if x.base == nil {
				continue
			}
			if err := w.Barrier(); err != nil {
				return nil, err
			}
			s, err := x.snap()
			if err != nil {
				return nil, err
			}
			x.dropTouched(s)
			b := *x.base
			bc := &Snapshot{Entries: map[string]string{}, Order: append([]string(nil), b.Order...)}
			for k, v := range b.Entries {
				bc.Entries[k] = v
			}
			x.dropTouched(bc)
			if d := bc.Diff(s); d != "" {
				var t []string
				for k := range x.touched {
					t = append(t, k)
				}
				return viol("bystander-data", "data the hostile requests did not address changed ("+bc.DiffClass(s)+")",
					fmt.Sprintf("instances addressed at the open version since the last snapshot: %v\n%s", t, d), i), nil
			}
			w.Stats.Probe("bystander-snapshot-compared")
			// new baseline (the addressed instances may have changed legitimately)
			ns, err := x.snap()
			if err != nil {
				return nil, err
			}
			x.base = ns
			x.touched = map[string]bool{}
		case "urlsweep":
			if x.base == nil {
				continue
			}
			hu := e.x.uuid(x.head)
			cnt := 0
			var sweepPanics *drv.Violation // the sweep goes on after a recovered panic so that one run lists them all
			for ui, u := range hostileURLs {
				if int64(ui)%op.M != op.N {
					continue
				}
				for _, m := range []string{"GET", "POST", "DELETE"} {
					var body []byte
					if m == "POST" {
						body = [][]byte{[]byte("[1,2,3]"), []byte("[]"), []byte("{}"), []byte("[7]")}[ui%4]
					}
					rq := proto.Req{Client: "c0", Kind: "http", Method: m, URL: "/api/node/" + hu + "/" + u, Body: body}
					if inst := strings.SplitN(u, "/", 2)[0]; m != "GET" {
						x.touched[inst] = true
						if inst == "seg" {
							x.touched["ann"], x.touched["lsz"] = true, true
						}
						if inst == "ann" {
							x.touched["lsz"] = true
						}
					}
					res, err := w.Batch([]proto.Req{rq}, "barrier")
					if err != nil {
						if errors.Is(err, drv.ErrChildDied) {
							d := strings.Join(w.Stats.ChildDeaths, "\n")
							return viol("process-death", "process-death:"+drv.PanicSig(d), fmt.Sprintf("hostile URL %s %s killed the server\n%s", m, rq.URL, d), i), nil
						}
						return nil, err
					}
					if res.Wedged {
						cerr := w.ClassifyWedge("hostile URL "+m+" "+rq.URL, res.Stacks)
						var he *drv.HungError
						if errors.As(cerr, &he) {
							w.Stats.Probe("run-ended-after-hung-hostile-request")
							w.Discard()
							return nil, nil
						}
						return nil, cerr
					}
					if isPanic500(res.Resps[0]) {
						if sweepPanics == nil {
							sweepPanics = viol("panic-500", "panic-500:"+drv.PanicSig(string(res.Resps[0].Body)), "", i)
						}
						sweepPanics.Detail += fmt.Sprintf("hostile URL %s %s answered by a recovered panic: %s\n", m, rq.URL, drv.PanicSig(string(res.Resps[0].Body)))
					}
					cnt++
				}
			}
			if op.N == 0 {
				root := e.x.uuid(0)
				for _, spec := range hostileNodeSpecs {
					if strings.Contains(spec, "%s") {
						spec = fmt.Sprintf(spec, root)
					}
					for _, u := range []string{"/api/node/" + spec + "/kv/info", "/api/node/" + spec + "/kv/key/a", "/api/repo/" + spec + "/info", "/api/node/" + spec + "/note"} {
						res, err := w.Batch([]proto.Req{drv.GET(u)}, "barrier")
						if err != nil {
							if errors.Is(err, drv.ErrChildDied) {
								d := strings.Join(w.Stats.ChildDeaths, "\n")
								return viol("process-death", "process-death:"+drv.PanicSig(d), fmt.Sprintf("hostile version specification GET %s killed the server\n%s", u, d), i), nil
							}
							return nil, err
						}
						if !res.Wedged && isPanic500(res.Resps[0]) {
							if sweepPanics == nil {
								sweepPanics = viol("panic-500", "panic-500:"+drv.PanicSig(string(res.Resps[0].Body)), "", i)
							}
							sweepPanics.Detail += fmt.Sprintf("hostile version specification GET %s answered by a recovered panic: %s\n", u, drv.PanicSig(string(res.Resps[0].Body)))
						}
						cnt++
					}
				}
			}
			if sweepPanics != nil {
				return sweepPanics, nil
			}
			w.Stats.Probes["hostile-url"] += cnt
			w.Stats.Probes["hostile-url-sweep"] += cnt
			x.kinds["url"] = true
			// the server still serves
			for _, inst := range []string{"seg", "ann", "kv", "nj", "roi", "gray"} {
				lr := x.followUp(inst, drv.NewRNG(uint64(op.N)+7))
				x.touched[inst] = true
				res, err := w.Batch([]proto.Req{lr}, "barrier")
				if err != nil {
					return nil, err
				}
				if res.Wedged {
					return viol("later-request", "a well-formed request after hostile URLs is never served ("+inst+")", fmt.Sprintf("%s %s never completes\n%s", lr.Method, lr.URL, trimTo(res.Stacks, 5000)), i), nil
				}
			}
		case "faulty":
			if x.base == nil {
				continue
			}
			r := drv.NewRNG(uint64(op.N)*0x9e3779b97f4a7c15 + 707)
			var cat *TypeCat
			for ci := range Catalogue {
				if Catalogue[ci].Name == op.K {
					cat = &Catalogue[ci]
				}
			}
			if cat == nil {
				continue
			}
			var cands []proto.Req
			cands = append(cands, cat.Muts(r, x.headBase(op.K))...)
			if r.IntN(4) == 0 {
				cands = append(cands, cat.Reads(x.headBase(op.K))...)
			}
			rq := pick(r, cands)
			x.touched[op.K] = true
			if op.K == "seg" {
				x.touched["ann"], x.touched["lsz"] = true, true
			}
			if op.K == "ann" {
				x.touched["lsz"] = true
			}
			desc := fmt.Sprintf("%s %s (%d-byte body) with the %d. store call matching %q failing", rq.Method, rq.URL, len(rq.Body), op.F.ErrAtOp, op.F.ErrMatch)
			if err := w.SetFaults(op.F); err != nil {
				return nil, err
			}
			res, err := w.Batch([]proto.Req{rq}, "barrier")
			if err != nil {
				if errors.Is(err, drv.ErrChildDied) {
					d := strings.Join(w.Stats.ChildDeaths, "\n")
					return viol("process-death", "process-death:"+drv.PanicSig(d), "well-formed request "+desc+" killed the server\n"+d, i), nil
				}
				return nil, err
			}
			if err := w.SetFaults(&proto.FaultPlan{}); err != nil {
				return nil, err
			}
			w.Stats.Probe("faulty-" + op.K)
			if res.Wedged {
				cerr := w.ClassifyWedge("well-formed request "+desc, res.Stacks)
				var he *drv.HungError
				if errors.As(cerr, &he) {
					w.Stats.Probe("run-ended-after-hung-request-under-store-error")
					w.Discard()
					return nil, nil
				}
				return nil, cerr
			}
			if isPanic500(res.Resps[0]) {
				return viol("panic-500", "panic-500:"+drv.PanicSig(string(res.Resps[0].Body)), fmt.Sprintf("well-formed request %s answered by a recovered panic\n%s", desc, trunc(res.Resps[0].Body)), i), nil
			}
			if res.Resps[0].Status >= 400 {
				w.Stats.Probe("request-failed-under-store-error")
			}
			for _, lr := range []proto.Req{drv.GET("/api/server/info"), x.followUp(op.K, r)} {
				res, err := w.Batch([]proto.Req{lr}, "barrier")
				if err != nil {
					if errors.Is(err, drv.ErrChildDied) {
						d := strings.Join(w.Stats.ChildDeaths, "\n")
						return viol("process-death", "process-death:"+drv.PanicSig(d), "after "+desc+" the server died serving "+lr.Method+" "+lr.URL+"\n"+d, i), nil
					}
					return nil, err
				}
				if res.Wedged {
					return viol("later-request", "a well-formed request after one that met a store error is never served ("+op.K+")",
						fmt.Sprintf("%s was answered; the following %s %s never completes\n%s", desc, lr.Method, lr.URL, trimTo(res.Stacks, 5000)), i), nil
				}
				if isPanic500(res.Resps[0]) {
					return viol("panic-500", "panic-500:"+drv.PanicSig(string(res.Resps[0].Body)), fmt.Sprintf("well-formed %s %s after %s answered by a recovered panic\n%s", lr.Method, lr.URL, desc, trunc(res.Resps[0].Body)), i), nil
				}
			}
		case "hostile":
			if x.base == nil {
				continue
			}
			r := drv.NewRNG(uint64(op.N)*0x9e3779b97f4a7c15 + 2020)
			rq, what, err := x.buildHostile(op.K, r)
			if err != nil {
				return nil, err
			}
			inst := instOfKind(op.K)
			if op.K == "url" {
				parts := strings.Split(rq.URL, "/")
				if len(parts) > 4 {
					inst = parts[4]
				}
			}
			if inst == "seg" {
				x.touched["ann"], x.touched["lsz"] = true, true // synced views follow the label volume
			}
			if inst == "ann" {
				x.touched["lsz"] = true
			}
			x.touched[inst] = true
			if strings.HasPrefix(op.K, "node-") {
				x.touched[op.K[5:]] = true
			}
			desc := fmt.Sprintf("%s %s (%d-byte body: %s)", rq.Method, rq.URL, len(rq.Body), what)
			nodeBefore := ""
			// kinds that replace one value as a whole: a refused request has nothing it may legitimately have applied in part
			atomicKind := strings.HasPrefix(op.K, "node-") || op.K == "seg-index" || op.K == "nj-jsonschema"
			if atomicKind {
				_, b, err := w.HTTP("GET", rq.URL, nil)
				if err != nil {
					return nil, err
				}
				nodeBefore = string(b)
			}
			res, err := w.Batch([]proto.Req{rq}, "barrier")
			if err != nil {
				if errors.Is(err, drv.ErrChildDied) {
					d := strings.Join(w.Stats.ChildDeaths, "\n")
					return viol("process-death", "process-death:"+drv.PanicSig(d), "hostile request "+desc+" killed the server\n"+d, i), nil
				}
				return nil, err
			}
			x.kinds[op.K] = true
			w.Stats.Probe("hostile-" + op.K)
			hung := false
			if res.Wedged {
				cerr := w.ClassifyWedge("hostile "+desc, res.Stacks)
				var he *drv.HungError
				if errors.As(cerr, &he) {
					hung = true
					w.Stats.Probe("hostile-request-hangs-alone")
				} else {
					return nil, cerr // WedgeError -> C20 verdict by the runner
				}
			} else {
				rp := res.Resps[0]
				if isPanic500(rp) {
					return viol("panic-500", "panic-500:"+drv.PanicSig(string(rp.Body)), fmt.Sprintf("hostile request %s answered by a recovered panic\n%s", desc, trunc(rp.Body)), i), nil
				}
				switch {
				case rp.Status >= 200 && rp.Status < 300:
					w.Stats.Probe("hostile-answered-2xx")
				case rp.Status >= 400 && rp.Status < 500:
					w.Stats.Probe("hostile-answered-4xx")
					if atomicKind {
						_, b, err := w.HTTP("GET", rq.URL, nil)
						if err != nil {
							return nil, err
						}
						if string(b) != nodeBefore {
							return viol("rejected-request-mutates", "a "+op.K+" POST answered with a client error changed the node's "+op.K[strings.Index(op.K, "-")+1:],
								fmt.Sprintf("hostile request %s -> %d %s\nbefore: %q\nafter:  %q", desc, rp.Status, trunc(rp.Body), trimTo(nodeBefore, 300), trimTo(string(b), 300)), i), nil
						}
						w.Stats.Probe("rejected-node-post-left-unchanged")
					}
				default:
					w.Stats.Probe(fmt.Sprintf("hostile-answered-%d", rp.Status))
				}
			}
			// later requests must be served
			later := []proto.Req{drv.GET("/api/server/info"), x.followUp(inst, r)}
			for _, lr := range later {
				res, err := w.Batch([]proto.Req{lr}, "barrier")
				if err != nil {
					if errors.Is(err, drv.ErrChildDied) {
						d := strings.Join(w.Stats.ChildDeaths, "\n")
						return viol("process-death", "process-death:"+drv.PanicSig(d), "after hostile request "+desc+" the server died serving "+lr.Method+" "+lr.URL+"\n"+d, i), nil
					}
					return nil, err
				}
				if res.Wedged && !hung {
					return viol("later-request", "a well-formed request after a rejected hostile one is never served ("+inst+")",
						fmt.Sprintf("hostile request %s was answered; the following %s %s never completes\n%s", desc, lr.Method, lr.URL, trimTo(res.Stacks, 5000)), i), nil
				}
				if res.Wedged && hung {
					w.Stats.Probe("run-ended-after-hung-hostile-request")
					w.Discard()
					return nil, nil
				}
				if isPanic500(res.Resps[0]) {
					return viol("panic-500", "panic-500:"+drv.PanicSig(string(res.Resps[0].Body)), fmt.Sprintf("well-formed %s %s after hostile request %s answered by a recovered panic\n%s", lr.Method, lr.URL, desc, trunc(res.Resps[0].Body)), i), nil
				}
			}
			if hung {
				w.Stats.Probe("run-ended-after-hung-hostile-request")
				w.Discard()
				return nil, nil
			}
		}
	}
	w.Discard()
	return nil, nil
}

func trimTo(s string, n int) string {
	if len(s) > n {
		return s[:n] + "\n...[truncated]"
	}
	return s
}

func (C20) NonTrivial(sc *drv.Scenario, st *drv.RunStats) bool {
	tot, kinds := 0, 0
	for k, n := range st.Probes {
		if strings.HasPrefix(k, "hostile-") && !strings.HasPrefix(k, "hostile-answered") && !strings.HasPrefix(k, "hostile-request") {
			tot += n
			kinds++
		}
	}
	if sc.Family == "store-errors" {
		return st.Probes["request-failed-under-store-error"] > 0 && st.Probes["bystander-snapshot-compared"] > 0
	}
	if st.Probes["hostile-url-sweep"] >= 60 {
		return st.Probes["bystander-snapshot-compared"] > 0
	}
	return tot >= 6 && kinds >= 2 && st.Probes["bystander-snapshot-compared"] > 0
}

var _ = json.Valid
var _ = time.Second
