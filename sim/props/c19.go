package props

import (
	"bytes"
	"encoding/json"
	"fmt"
	"math/rand/v2"
	"sort"
	"strings"
	"time"

	"verif/sim/drv"
	"verif/sim/proto"
)

// C19 — copying a data instance preserves its versioned content.
type C19 struct{ drv.CheckBase }

func init() { drv.Register(&C19{}) }

func (C19) ID() string    { return "C19" }
func (C19) Level() string { return "exploration" }
func (C19) Rule() string {
	return "each run = one seeded write/delete history over a branched version tree on four source instances (keyvalue, uint8blk, annotation, roi): values inherited, overwritten and deleted at different depths, " +
		"commits, new versions, branches, restarts; at seeded points 'repo <uuid> copy <src> <dst>' is issued through the real RPC switch, plain (all versions) or transmit=flatten at the issuing version, " +
		"onto the same store or onto a second store (backend assignment by name); the copy's producer and consumer goroutines are interleaved by the seeded scheduler. " +
		"Oracle (relational, no model): after the copy settles, every read endpoint of the type answered by the copy equals the source's answer - at every version of the tree for a plain copy, at the flatten version for a flattened copy " +
		"(data reads byte-identical; for image volumes extents instead of the whole info document) - and the source's answers at every version equal those taken before the copy. " +
		"non-trivial = the source history holds at least one overwrite or delete in a descendant of a version that wrote the datum, and at least one copy completed; distinct = distinct (steps, schedule) hash"
}
func (C19) Assumptions() []string { return commonAssumptions }
func (C19) Budget(tier string) (int, time.Duration) {
	return budget(tier, 140, 10000, 100*time.Second, 30*time.Minute)
}

var c19Types = []string{"keyvalue", "uint8blk", "annotation", "roi"}
var c19Name = map[string]string{"keyvalue": "kv", "uint8blk": "gray", "annotation": "ann", "roi": "reg"}

func (C19) Generate(r *rand.Rand, tier string, idx int) *drv.Scenario {
	seed := func() int64 { return int64(r.Uint64N(1 << 40)) }
	steps := []drv.Op{{Op: "c19repo"}}
	d := NewDAG()
	d.Add(0, VUUID(0), nil, "", 0)
	brc, cpc := 0, 0
	// most runs concentrate on one or two types so that histories get deep
	types := append([]string(nil), c19Types...)
	r.Shuffle(len(types), func(i, j int) { types[i], types[j] = types[j], types[i] })
	types = types[:1+r.IntN(2)]
	copyOp := func(v int) drv.Op {
		cpc++
		name := fmt.Sprintf("cp%d", cpc)
		if r.IntN(3) == 0 {
			name = fmt.Sprintf("o%d", cpc) // assigned to the second store
		}
		mode := "all"
		if r.IntN(2) == 0 {
			mode = "flatten"
		}
		return drv.Op{Op: "copy", T: pick(r, types), V: v, Mode: mode, K2: name}
	}
	n := 10 + r.IntN(16)
	for i := 0; i < n; i++ {
		open, locked := d.Open(0), d.LockedNodes(0)
		if r.Float64() < 0.03 {
			steps = append(steps, drv.Op{Op: "restart", Mode: "clean"})
			continue
		}
		if len(open) == 0 || (r.IntN(6) == 0 && len(locked) > 0 && len(d.Nodes) < 7) {
			if len(locked) == 0 {
				v := pick(r, open)
				d.Nodes[v].Locked = true
				steps = append(steps, drv.Op{Op: "commit", V: v})
				continue
			}
			var c []int
			for _, p := range locked {
				if d.CanNewVersion(p) {
					c = append(c, p)
				}
			}
			id := d.NextIdx()
			if len(c) > 0 && r.IntN(2) == 0 {
				p := pick(r, c)
				d.Add(id, VUUID(id), []int{p}, d.Nodes[p].Branch, 0)
				steps = append(steps, drv.Op{Op: "newver", V: p, N: int64(id)})
			} else {
				p := pick(r, locked)
				brc++
				name := fmt.Sprintf("cb%d", brc)
				d.Add(id, VUUID(id), []int{p}, name, 0)
				steps = append(steps, drv.Op{Op: "branch", V: p, Br: name, N: int64(id)})
			}
			continue
		}
		v := pick(r, open)
		switch y := r.IntN(100); {
		case y < 78:
			steps = append(steps, drv.Op{Op: "mut", T: pick(r, types), V: v, N: seed()})
		case y < 88:
			d.Nodes[v].Locked = true
			steps = append(steps, drv.Op{Op: "commit", V: v})
		default:
			if cpc < 3 {
				all := d.Sorted()
				steps = append(steps, copyOp(pick(r, all)))
			}
		}
	}
	steps = append(steps, copyOp(pick(r, d.Sorted())))
	if r.IntN(2) == 0 {
		steps = append(steps, copyOp(pick(r, d.Sorted())))
	}
	if r.IntN(2) == 0 { // a restart right after the last copy, with nothing in between that re-saves metadata
		steps = append(steps, drv.Op{Op: "restart", Mode: "clean"})
	}
	k := baseKnobs(r)
	k.Second = true
	k.Backends = map[string]string{}
	for c := 1; c <= 6; c++ {
		for v := 0; v < 10; v++ {
			k.Backends[fmt.Sprintf("o%d:%s", c, VUUID(v))] = "second"
		}
	}
	return &drv.Scenario{Family: strings.Join(types, "+"), Knobs: k, Steps: steps, Fixed: 1}
}

// c19Reads: the read set of one instance (base = /api/node/<uuid>/<name>).
func c19Reads(typ, base string) []proto.Req {
	switch typ {
	case "keyvalue":
		out := []proto.Req{drv.GET(base + "/keys"), drv.GET(base + "/keyrangevalues/0/zzzz?json=true"), drv.GET(base + "/keyrange/a/c")}
		for _, k := range []string{"a", "b", "c", "d", "e"} {
			out = append(out, drv.GET(base+"/key/"+k))
		}
		return out
	case "uint8blk":
		return []proto.Req{drv.GET(base + "/raw/0_1_2/48_48_32/-16_-16_0"), drv.GET(base + "/blocks/0_0_0/2"), drv.GET(base + "/blocks/-1_0_1/3"),
			drv.GET(base + "/subvolblocks/48_48_32/-16_-16_0?compression=uncompressed"), drv.GET(base + "/info")}
	case "annotation":
		return []proto.Req{drv.GET(base + "/all-elements"), drv.GET(base + "/tag/t1"), drv.GET(base + "/tag/t2?relationships=true"),
			drv.GET(base + "/elements/200_200_200/-50_-50_-50"), drv.GET(base + "/blocks/128_128_128/-64_-64_-64")}
	case "roi":
		return []proto.Req{drv.GET(base + "/roi"), post(base+"/ptquery", []byte("[[1,1,1],[20,20,20],[100,1,1],[-3,17,40]]")), drv.GET(base + "/partition?batchsize=2")}
	}
	return nil
}

func c19Norm(typ string, rq proto.Req, body []byte) []byte {
	if typ == "uint8blk" && strings.HasSuffix(rq.URL, "/info") {
		var info struct {
			Extended struct {
				MinPoint, MaxPoint, BlockSize interface{}
				Background                    interface{}
			}
		}
		if json.Unmarshal(body, &info) == nil {
			b, _ := json.Marshal(info.Extended)
			return b
		}
	}
	return body
}

type c19Exec struct {
	W      *drv.World
	D      *DAG
	Hist   map[string]map[string][]int // type -> datum -> versions that wrote/deleted it
	Deep   bool
	Ann    map[int]map[[3]int]bool // annotation positions believed present per version (workload guidance only)
	Copies []c19Copy
}

// c19Copy remembers what a finished copy answered, to be compared again after a restart.
type c19Copy struct {
	Typ, Name, What string
	Vs              []int
	Snap            map[string][]byte
}

func (x *c19Exec) recheckCopies(step int) (*drv.Violation, error) {
	for _, c := range x.Copies {
		got, err := x.snapshot(c.Typ, c.Name, c.Vs)
		if err != nil {
			return nil, err
		}
		if k, d := diffSnap(c.Snap, got); k != "" {
			d = strings.Replace(strings.Replace(d, "source:", "before:", 1), "copy:  ", "after: ", 1)
			return &drv.Violation{Prop: "C19", Oracle: "copy-after-restart", Sig: "copy of " + c.Typ + " reads differently after a restart", Detail: c.What + "\n" + d, Step: step}, nil
		}
		x.W.Stats.Probe("copy-rechecked-after-restart")
	}
	return nil, nil
}

func (x *c19Exec) uuid(v int) string { return x.D.Nodes[v].UUID }

func (x *c19Exec) note(typ, datum string, v int) {
	if x.Hist[typ] == nil {
		x.Hist[typ] = map[string][]int{}
	}
	for _, a := range x.Hist[typ][datum] {
		if a != v && x.D.ProperAncestor(a, v) {
			x.Deep = true
		}
	}
	x.Hist[typ][datum] = append(x.Hist[typ][datum], v)
}

func (x *c19Exec) snapshot(typ, name string, vs []int) (map[string][]byte, error) {
	out := map[string][]byte{}
	for _, v := range vs {
		base := "/api/node/" + x.uuid(v) + "/" + name
		reqs := c19Reads(typ, base)
		resps, err := x.W.Seq(reqs)
		if err != nil {
			return nil, err
		}
		for i, rp := range resps {
			key := fmt.Sprintf("v%d %s %s", v, reqs[i].Method, strings.TrimPrefix(reqs[i].URL, base))
			out[key] = append([]byte(fmt.Sprintf("%d ", rp.Status)), c19Norm(typ, reqs[i], rp.Body)...)
		}
	}
	return out, nil
}

func diffSnap(a, b map[string][]byte) (string, string) {
	var keys []string
	for k := range a {
		keys = append(keys, k)
	}
	sort.Strings(keys)
	for _, k := range keys {
		if !bytes.Equal(a[k], b[k]) {
			i := firstDiff(a[k], b[k])
			lo := i - 40
			if lo < 0 {
				lo = 0
			}
			return k, fmt.Sprintf("%s: first difference at byte %d\n    source: %s\n    copy:   %s", k, i, trunc(a[k][lo:]), trunc(b[k][lo:]))
		}
	}
	return "", ""
}

func (x *c19Exec) mutate(op drv.Op) (*drv.Violation, error) {
	w := x.W
	r := drv.NewRNG(uint64(op.N)*0x9e3779b97f4a7c15 + 99)
	base := "/api/node/" + x.uuid(op.V) + "/" + c19Name[op.T]
	var rq proto.Req
	switch op.T {
	case "keyvalue":
		k := pick(r, []string{"a", "b", "c", "d", "e"})
		if r.IntN(3) == 0 {
			rq = del(base + "/key/" + k)
		} else {
			rq = post(base+"/key/"+k, []byte(fmt.Sprintf("v%d-%d", op.V, r.IntN(100000))))
		}
		x.note(op.T, k, op.V)
	case "uint8blk":
		b := make([]byte, catB*catB*catB)
		fillv := byte(1 + r.IntN(250))
		for i := range b {
			b[i] = fillv
			if r.IntN(5) == 0 {
				b[i] = byte(r.IntN(256))
			}
		}
		bc := [3]int{-1 + r.IntN(3), -1 + r.IntN(3), r.IntN(2)}
		if r.IntN(3) == 0 {
			rq = post(fmt.Sprintf("%s/blocks/%d_%d_%d/1", base, bc[0], bc[1], bc[2]), b)
		} else {
			rq = post(fmt.Sprintf("%s/raw/0_1_2/16_16_16/%d_%d_%d?mutate=true", base, bc[0]*16, bc[1]*16, bc[2]*16), b)
		}
		x.note(op.T, fmt.Sprint(bc), op.V)
	case "annotation":
		if x.Ann[op.V] == nil {
			x.Ann[op.V] = map[[3]int]bool{}
		}
		have := x.Ann[op.V]
		var hv [][3]int
		for p := range have {
			hv = append(hv, p)
		}
		sort.Slice(hv, func(i, j int) bool { return lessPt(hv[i], hv[j]) })
		grid := func() [3]int { return [3]int{-40 + 40*r.IntN(4), -40 + 40*r.IntN(3), 10 * r.IntN(3)} }
		switch c := r.IntN(10); {
		case c < 3 && len(hv) > 0:
			p := pick(r, hv)
			rq = del(fmt.Sprintf("%s/element/%d_%d_%d", base, p[0], p[1], p[2]))
			delete(have, p)
			x.note(op.T, fmt.Sprint(p), op.V)
		case c < 5 && len(hv) > 0:
			p, q := pick(r, hv), grid()
			if have[q] || p == q {
				return nil, nil
			}
			rq = post(fmt.Sprintf("%s/move/%d_%d_%d/%d_%d_%d", base, p[0], p[1], p[2], q[0], q[1], q[2]), nil)
			delete(have, p)
			have[q] = true
			x.note(op.T, fmt.Sprint(p), op.V)
			x.note(op.T, fmt.Sprint(q), op.V)
		default:
			p := grid()
			e := map[string]interface{}{"Pos": p, "Kind": pick(r, []string{"PostSyn", "PreSyn", "Note"}), "Tags": []string{pick(r, []string{"t1", "t2"})}, "Prop": map[string]string{"p": fmt.Sprint(r.IntN(1000))}}
			if len(hv) > 0 && r.IntN(2) == 0 {
				e["Rels"] = []map[string]interface{}{{"Rel": "GroupedWith", "To": pick(r, hv)}}
			}
			b, _ := json.Marshal([]interface{}{e})
			rq = post(base+"/elements", b)
			have[p] = true
			x.note(op.T, fmt.Sprint(p), op.V)
		}
	case "roi":
		if r.IntN(5) == 0 {
			rq = del(base + "/roi")
		} else {
			var spans [][4]int
			seen := map[[2]int]bool{}
			for i := 0; i < 1+r.IntN(3); i++ {
				z, y := -1+r.IntN(3), -1+r.IntN(3)
				if seen[[2]int{z, y}] {
					continue
				}
				seen[[2]int{z, y}] = true
				x0 := -1 + r.IntN(3)
				spans = append(spans, [4]int{z, y, x0, x0 + r.IntN(2)})
			}
			sort.Slice(spans, func(i, j int) bool {
				for k := 0; k < 4; k++ {
					if spans[i][k] != spans[j][k] {
						return spans[i][k] < spans[j][k]
					}
				}
				return false
			})
			b, _ := json.Marshal(spans)
			rq = post(base+"/roi", b)
		}
		x.note(op.T, "roi", op.V)
	}
	st, body, err := w.HTTP(rq.Method, rq.URL, rq.Body)
	if err != nil {
		return nil, err
	}
	if st == 200 {
		w.Stats.Probe("source-mutation-" + op.T)
	} else {
		w.Stats.Probe("source-mutation-refused")
		_ = body
	}
	return nil, nil
}

func (C19) Execute(sc *drv.Scenario, w *drv.World) (*drv.Violation, error) {
	if _, err := w.Start(); err != nil {
		return nil, err
	}
	x := &c19Exec{W: w, D: NewDAG(), Hist: map[string]map[string][]int{}, Ann: map[int]map[[3]int]bool{}}
	for i, op := range sc.Steps {
		w.CurStep = i
		switch op.Op {
		case "c19repo":
			u := VUUID(0)
			st, body, e := w.HTTP("POST", "/api/repos", jsonBody(map[string]interface{}{"alias": "crepo", "description": "sim", "root": u}))
			if e != nil {
				return nil, e
			}
			if st != 200 {
				return nil, fmt.Errorf("%w: cannot create repo: %d %s", drv.ErrInfra, st, body)
			}
			x.D.Add(0, u, nil, "", 0)
			for _, t := range c19Types {
				cfg := map[string]interface{}{"typename": t, "dataname": c19Name[t]}
				if t == "uint8blk" || t == "roi" {
					cfg["BlockSize"] = "16,16,16"
				}
				st, body, e := w.HTTP("POST", "/api/repo/"+u+"/instance", jsonBody(cfg))
				if e != nil {
					return nil, e
				}
				if st != 200 {
					return nil, fmt.Errorf("%w: cannot create %s: %d %s", drv.ErrInfra, t, st, body)
				}
			}
		case "commit":
			if !x.D.Has(op.V) {
				continue
			}
			n := x.D.Nodes[op.V]
			st, _, e := w.HTTP("POST", "/api/node/"+n.UUID+"/commit", jsonBody(map[string]interface{}{"note": "c"}))
			if e != nil {
				return nil, e
			}
			if st == 200 {
				n.Locked = true
			}
		case "newver", "branch":
			if !x.D.Has(op.V) || x.D.Has(int(op.N)) || !x.D.Nodes[op.V].Locked {
				continue
			}
			p := x.D.Nodes[op.V]
			id := int(op.N)
			body := map[string]interface{}{"uuid": VUUID(id)}
			action, br := "newversion", p.Branch
			if op.Op == "branch" {
				action, br = "branch", op.Br
				body["branch"] = op.Br
			}
			st, _, e := w.HTTP("POST", "/api/node/"+p.UUID+"/"+action, jsonBody(body))
			if e != nil {
				return nil, e
			}
			if st != 200 {
				w.Stats.Probe("setup-rejected")
				continue
			}
			x.D.Add(id, VUUID(id), []int{op.V}, br, 0)
			if a := x.Ann[op.V]; a != nil {
				c := map[[3]int]bool{}
				for k := range a {
					c[k] = true
				}
				x.Ann[id] = c
			}
		case "restart":
			if _, e := w.Restart("clean"); e != nil {
				return nil, e
			}
			if v, err := x.recheckCopies(i); v != nil || err != nil {
				return v, err
			}
		case "mut":
			if !x.D.Has(op.V) || x.D.Nodes[op.V].Locked {
				continue
			}
			if v, err := x.mutate(op); v != nil || err != nil {
				return v, err
			}
		case "copy":
			if !x.D.Has(op.V) {
				continue
			}
			src := c19Name[op.T]
			all := x.D.Sorted()
			before, err := x.snapshot(op.T, src, all)
			if err != nil {
				return nil, err
			}
			args := []string{"repo", x.uuid(op.V), "copy", src, op.K2}
			if op.Mode == "flatten" {
				args = append(args, "transmit=flatten")
			}
			st, txt, err := w.RPC(nil, args...)
			if err != nil {
				return nil, err
			}
			what := fmt.Sprintf("'%s' (%s, %d versions in the tree, store %s)", strings.Join(args, " "), op.T, len(all), map[bool]string{true: "second", false: "main"}[strings.HasPrefix(op.K2, "o")])
			if st != 200 {
				return &drv.Violation{Prop: "C19", Oracle: "copy-ack", Sig: "valid copy command refused (" + op.T + ")", Detail: fmt.Sprintf("%s -> %d %s", what, st, txt), Step: i}, nil
			}
			if err := w.Barrier(); err != nil {
				return nil, err
			}
			after, err := x.snapshot(op.T, src, all)
			if err != nil {
				return nil, err
			}
			if k, d := diffSnap(before, after); k != "" {
				return &drv.Violation{Prop: "C19", Oracle: "source-unchanged", Sig: "source instance changed by the copy (" + op.T + ")", Detail: what + "\n" + d, Step: i}, nil
			}
			vs := all
			if op.Mode == "flatten" {
				vs = []int{op.V}
			}
			want := map[string][]byte{}
			for _, v := range vs {
				p := fmt.Sprintf("v%d ", v)
				for k, b := range after {
					if strings.HasPrefix(k, p) {
						want[k] = b
					}
				}
			}
			got, err := x.snapshot(op.T, op.K2, vs)
			if err != nil {
				return nil, err
			}
			if k, d := diffSnap(want, got); k != "" {
				view := strings.SplitN(k, " ", 3)[2]
				if j := strings.IndexAny(view, "/?"); j > 0 {
					if l := strings.IndexAny(view[1:], "/?"); l > 0 {
						view = view[:l+1]
					}
				}
				sig := fmt.Sprintf("%s copy of %s differs from the source in %s", map[bool]string{true: "flattened", false: "plain"}[op.Mode == "flatten"], op.T, view)
				return &drv.Violation{Prop: "C19", Oracle: "copy-vs-source", Sig: sig, Detail: what + "\n" + d, Step: i}, nil
			}
			x.Copies = append(x.Copies, c19Copy{Typ: op.T, Name: op.K2, What: what, Vs: vs, Snap: got})
			w.Stats.Probe("copy-" + op.Mode + "-" + op.T)
			if strings.HasPrefix(op.K2, "o") {
				w.Stats.Probe("copy-onto-second-store")
			}
			if x.Deep {
				w.Stats.Probe("copy-after-deep-history")
			}
		}
	}
	w.Discard()
	return nil, nil
}

func (C19) NonTrivial(sc *drv.Scenario, st *drv.RunStats) bool {
	return st.Probes["copy-after-deep-history"] > 0
}
