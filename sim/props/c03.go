package props

import (
	"fmt"
	"math/rand/v2"
	"strings"
	"time"

	"verif/sim/drv"
)

// C03 — a restart changes nothing observable.
type C03 struct{ drv.CheckBase }

func init() { drv.Register(&C03{}) }

func (C03) ID() string    { return "C03" }
func (C03) Level() string { return "exploration" }
func (C03) Rule() string {
	return "each run = one seeded history of acknowledged API operations (repo/DAG operations incl. merges, key-value writes and deletes, instance creation, notes and logs; " +
		"label, annotation and neuron-annotation operations where those workloads exist) with 1-3 restarts placed between operations: clean shutdown (real shutdown sequence under the fake clock) " +
		"or abrupt process exit at idle; the next lifetime is a FRESH process on the same directories. Oracle: the complete observable snapshot (repos/info without the mutation-id counter, " +
		"note/log/status of every version, every catalogue read of every instance at every version, and note/log/status/keys read through <root>:<branch> addressing for every branch name incl. master) taken just before the stop equals the one taken after start-up; the model keeps running across " +
		"the restart, so state rebuilt at start-up must also behave like the state it replaced (later reads vs the reference resolver, graph invariants, id uniqueness). " +
		"an 'all-types' family does the same on a populated repository holding one instance of every catalogue type (labelmap with synced annotation and labelsz, keyvalue, neuronjson, roi, uint8blk) with valid mutations of every type in open versions between the restarts; non-trivial = at least one restart after at least one merge/branch and one write; distinct = distinct (steps, schedule, faults) hash"
}
func (C03) Assumptions() []string { return commonAssumptions }
func (C03) Budget(tier string) (int, time.Duration) {
	return budget(tier, 400, 30000, 80*time.Second, 25*time.Minute)
}

func (C03) Generate(r *rand.Rand, tier string, idx int) *drv.Scenario {
	if idx%6 == 5 {
		// all-types family: a populated repository with one instance of every catalogue type (labelmap with
		// synced annotation and labelsz, keyvalue, neuronjson, roi, uint8blk), valid mutations of every
		// type in open versions, commits and new versions, with clean and kill restarts in between
		seed := func() int64 { return int64(r.Uint64N(1 << 40)) }
		steps := []drv.Op{{Op: "c2setup", N: seed()}, {Op: "newver", V: 0, N: 1}}
		head, next := 1, 2
		n := 8 + r.IntN(14)
		for i := 0; i < n; i++ {
			switch x := r.IntN(20); {
			case x < 14:
				steps = append(steps, drv.Op{Op: "catmut", V: head, N: seed()})
			case x < 16 && next < 5:
				steps = append(steps, drv.Op{Op: "commit", V: head}, drv.Op{Op: "newver", V: head, N: int64(next)})
				head, next = next, next+1
			default:
				steps = append(steps, drv.Op{Op: "restart", Mode: pick(r, []string{"clean", "kill"})})
			}
		}
		steps = append(steps, drv.Op{Op: "restart", Mode: pick(r, []string{"clean", "kill"})}, drv.Op{Op: "catmut", V: head, N: seed()}, drv.Op{Op: "restart", Mode: "clean"})
		k := baseKnobs(r)
		k.ShutDelay = r.IntN(3)
		k.AllowSplit = true
		return &drv.Scenario{Family: "all-types", Knobs: k, Steps: steps, Fixed: 2}
	}
	o := KVGenOpts{
		MaxVersions: 4 + r.IntN(8),
		Keys:        []string{"a", "b", "c", "ab"}[:2+r.IntN(3)],
		Steps:       10 + r.IntN(26),
		PRestart:    0.09,
		PCheck:      0.04,
		MergeBias:   float64(r.IntN(10)),
		Unversioned: r.IntN(3) == 0,
		SecondRepo:  r.IntN(3) == 0,
		FinalCheck:  true,
		PExtra:      0.08,
	}
	o.ExtraOp = func(g *KVGen) *drv.Op {
		vs := g.D.Sorted()
		v := pick(g.R, vs)
		switch g.R.IntN(4) {
		case 3:
			// another repo, created mid-history (its ids come from the same server-wide counters)
			nrepo := 2
			for _, n := range g.D.Nodes {
				if n.Repo >= nrepo {
					nrepo = n.Repo + 1
				}
			}
			idx := g.D.NextIdx()
			g.D.Add(idx, VUUID(idx), nil, "", nrepo)
			return &drv.Op{Op: "repo", R: nrepo, N: int64(idx)}
		case 0:
			return &drv.Op{Op: "note", V: v, Val: g.NewVal()}
		case 1:
			return &drv.Op{Op: "log", V: v, Val: g.NewVal()}
		default:
			open := g.D.Open(0)
			if len(open) == 0 {
				return nil
			}
			return &drv.Op{Op: "inst", R: 0, I: fmt.Sprintf("kv%d", g.R.IntN(3)), T: "keyvalue", V: pick(g.R, open)}
		}
	}
	g := GenKVHistory(r, o)
	// a restart right after a repository was created or a version was committed without note
	// (nothing else has re-saved the metadata yet)
	for i := len(g.Steps) - 1; i >= g.Fixed; i-- {
		if (g.Steps[i].Op == "repo" || (g.Steps[i].Op == "commit" && g.Steps[i].Mode == "bare")) && r.IntN(2) == 0 {
			rs := drv.Op{Op: "restart", Mode: pick(r, []string{"clean", "kill"})}
			g.Steps = append(g.Steps[:i+1], append([]drv.Op{rs}, g.Steps[i+1:]...)...)
		}
	}
	// make sure there is at least one restart, placed after some work
	has := false
	for _, s := range g.Steps {
		if s.Op == "restart" {
			has = true
		}
	}
	if !has {
		pos := g.Fixed + (len(g.Steps)-g.Fixed)*2/3
		mode := pick(r, []string{"clean", "kill"})
		g.Steps = append(g.Steps[:pos], append([]drv.Op{{Op: "restart", Mode: mode}}, g.Steps[pos:]...)...)
	}
	k := baseKnobs(r)
	k.ShutDelay = r.IntN(3)
	k.MutLogJSON = r.IntN(2) == 0
	return &drv.Scenario{Family: "kvdag", Knobs: k, Steps: g.Steps, Fixed: g.Fixed}
}

func (C03) Execute(sc *drv.Scenario, w *drv.World) (*drv.Violation, error) {
	if _, err := w.Start(); err != nil {
		return nil, err
	}
	x := NewKVExec(w)
	e2 := &c2Exec{w: w, x: x, snaps: map[int]*Snapshot{}}
	for i, op := range sc.Steps {
		w.CurStep = i
		switch op.Op {
		case "c2setup":
			if err := (C02{}).setup(e2, op); err != nil {
				return nil, err
			}
			continue
		case "catmut":
			if !x.D.Has(op.V) || x.D.Nodes[op.V].Locked {
				continue
			}
			r := drv.NewRNG(uint64(op.N))
			cat := Catalogue[r.IntN(len(Catalogue))]
			muts := cat.Muts(r, e2.base(op.V, cat.Name))
			rq := muts[r.IntN(len(muts))]
			if _, _, err := w.HTTP(rq.Method, rq.URL, rq.Body); err != nil {
				return nil, err
			}
			w.Stats.Probe("mutation-" + cat.Type)
			continue
		}
		if op.Op == "restart" {
			if sc.Family == "all-types" {
				if err := w.Barrier(); err != nil {
					return nil, err
				}
			}
			before, err := TakeSnapshot(w, SnapOpts{BranchHeads: true})
			if err != nil {
				return nil, err
			}
			// the fake clock moves on before the stop so that re-stamped times would show
			if err := w.Sleep(int64(1500 + 1000*(i%3))); err != nil {
				return nil, err
			}
			if _, err := w.Restart(op.Mode); err != nil {
				return nil, err
			}
			after, err := TakeSnapshot(w, SnapOpts{BranchHeads: true})
			if err != nil {
				return nil, err
			}
			if d := before.Diff(after); d != "" {
				return &drv.Violation{Prop: "C03", Oracle: "snapshot-before-vs-after-restart", Step: i,
					Sig: "restart(" + op.Mode + ") changed " + before.DiffClass(after), Detail: d}, nil
			}
			w.Stats.Probe("restart-compared")
			continue
		}
		switch op.Op {
		case "note", "log":
			if !x.D.Has(op.V) {
				continue
			}
			n := x.D.Nodes[op.V]
			body := jsonBody(map[string]interface{}{"note": op.Val})
			if op.Op == "log" {
				body = jsonBody(map[string]interface{}{"log": []string{op.Val}})
			}
			if _, _, err := w.HTTP("POST", "/api/node/"+n.UUID+"/"+op.Op, body); err != nil {
				return nil, err
			}
			continue
		case "check":
			v, err := x.CheckPointReads("C03")
			if err != nil {
				return nil, err
			}
			if v == nil {
				v, err = checkGraphNow(w, "C03")
				if err != nil {
					return nil, err
				}
			}
			if v == nil && sc.Knobs.MutLogJSON {
				v, err = x.CheckMutationLogs("C03")
				if err != nil {
					return nil, err
				}
			}
			if v != nil {
				v.Step = i
				v.Oracle = "rebuilt-state-behaves: " + v.Oracle
				return v, nil
			}
			continue
		}
		_, v, err := x.ApplyDAGOp(op)
		if err != nil {
			return nil, err
		}
		if v != nil {
			v.Step = i
			return v, nil
		}
	}
	w.Discard()
	return nil, nil
}

// checkGraphNow evaluates the C07 graph invariants on the current repos/info.
func checkGraphNow(w *drv.World, prop string) (*drv.Violation, error) {
	st, body, err := w.HTTP("GET", "/api/repos/info", nil)
	if err != nil {
		return nil, err
	}
	if st != 200 {
		return &drv.Violation{Prop: prop, Oracle: "graph", Sig: "repos/info fails", Detail: trunc(body)}, nil
	}
	repos, err := parseRepos(body)
	if err != nil {
		return &drv.Violation{Prop: prop, Oracle: "graph", Sig: "repos/info unparseable", Detail: trunc(body)}, nil
	}
	if class, det := graphInvariants(repos); class != "" {
		return &drv.Violation{Prop: prop, Oracle: "graph", Sig: "graph malformed: " + class, Detail: det + "\n" + normGraph(repos)}, nil
	}
	return nil, nil
}

func (C03) NonTrivial(sc *drv.Scenario, st *drv.RunStats) bool {
	if sc.Family == "all-types" {
		kinds := 0
		for k := range st.Probes {
			if strings.HasPrefix(k, "mutation-") {
				kinds++
			}
		}
		return kinds >= 2 && st.Probes["restart-compared"] > 0
	}
	structural, write := false, false
	for _, op := range sc.Steps {
		if op.Op == "restart" {
			return structural && write
		}
		if op.Op == "merge" || op.Op == "branch" {
			structural = true
		}
		if op.Op == "put" || op.Op == "del" {
			write = true
		}
	}
	return false
}
