package props

// Request catalogue: for every data type exercised, how to create an instance,
// valid mutation requests (with payload builders) and the read requests that
// make up its observable snapshot.  Used by C02, C03, C19, C20.

import (
	"encoding/json"
	"fmt"
	"math/rand/v2"
	"os"
	"path/filepath"
	"regexp"
	"sort"
	"strings"

	"verif/sim/drv"
	"verif/sim/proto"
)

// The catalogue works on a fixed small geometry: block size 16, box [0,32)^3.
const catB = 16

type TypeCat struct {
	Type   string
	Name   string // instance name used by catalogue scenarios
	Config map[string]interface{}
	// Muts returns valid mutation requests (random content) against base = /api/node/<uuid>/<name>
	Muts  func(r *rand.Rand, base string) []proto.Req
	Reads func(base string) []proto.Req
	// ReadOnlyPOST lists endpoint keywords whose POST is declared non-mutating
	ReadOnlyPOST []string
}

func post(url string, body []byte) proto.Req {
	return proto.Req{Client: "c0", Kind: "http", Method: "POST", URL: url, Body: body}
}
func del(url string) proto.Req {
	return proto.Req{Client: "c0", Kind: "http", Method: "DELETE", URL: url}
}
func getb(url string, body []byte) proto.Req {
	return proto.Req{Client: "c0", Kind: "http", Method: "GET", URL: url, Body: body}
}

func protoKV(k string, v []byte) []byte {
	// KeyValues{ kvs: [ KeyValue{key=1,value=2} ] }
	var inner []byte
	inner = append(inner, 0x0a)
	inner = appendUvarint(inner, uint64(len(k)))
	inner = append(inner, k...)
	inner = append(inner, 0x12)
	inner = appendUvarint(inner, uint64(len(v)))
	inner = append(inner, v...)
	out := []byte{0x0a}
	out = appendUvarint(out, uint64(len(inner)))
	return append(out, inner...)
}

func appendUvarint(b []byte, x uint64) []byte {
	for x >= 0x80 {
		b = append(b, byte(x)|0x80)
		x >>= 7
	}
	return append(b, byte(x))
}

func labelBox(r *rand.Rand, labels []uint64) []byte {
	return u64sToBytes(genLayout(r, [3]int{catB, catB, catB}, labels, false))
}

func elemJSON(r *rand.Rand, n int) []byte {
	type rel struct {
		Rel string
		To  [3]int
	}
	type el struct {
		Pos  [3]int
		Kind string
		Rels []rel `json:",omitempty"`
		Tags []string
		Prop map[string]string `json:",omitempty"`
	}
	var els []el
	for i := 0; i < n; i++ {
		e := el{Pos: [3]int{r.IntN(32), r.IntN(32), r.IntN(32)}, Kind: pick(r, []string{"PostSyn", "PreSyn", "Note"}), Tags: []string{pick(r, []string{"t1", "t2"})}}
		if r.IntN(2) == 0 {
			e.Prop = map[string]string{"p": fmt.Sprint(r.IntN(100))}
		}
		els = append(els, e)
	}
	b, _ := json.Marshal(els)
	return b
}

var Catalogue = []TypeCat{
	{
		Type: "keyvalue", Name: "kv", Config: map[string]interface{}{},
		Muts: func(r *rand.Rand, base string) []proto.Req {
			k := pick(r, []string{"a", "b", "c"})
			return []proto.Req{
				post(base+"/key/"+k, []byte(fmt.Sprintf("v%d", r.IntN(1000)))),
				del(base + "/key/" + pick(r, []string{"a", "b", "c"})),
				post(base+"/keyvalues", protoKV("d", []byte(fmt.Sprintf("w%d", r.IntN(1000))))),
			}
		},
		Reads: func(base string) []proto.Req {
			return []proto.Req{drv.GET(base + "/keys"), drv.GET(base + "/keyrangevalues/0/zzzz?tar=true")}
		},
	},
	{
		Type: "labelmap", Name: "seg", Config: map[string]interface{}{"BlockSize": "16,16,16", "MaxDownresLevel": "1"},
		Muts: func(r *rand.Rand, base string) []proto.Req {
			off := fmt.Sprintf("%d_%d_%d", 16*r.IntN(2), 16*r.IntN(2), 16*r.IntN(2))
			l := uint64(1 + r.IntN(6))
			return []proto.Req{
				post(base+"/raw/0_1_2/16_16_16/"+off+"?mutate=true", labelBox(r, []uint64{l, l + 1})),
				post(base+"/merge", jsonU64s([]uint64{uint64(1 + r.IntN(8)), uint64(1 + r.IntN(8))})),
				post(fmt.Sprintf("%s/cleave/%d", base, 1+r.IntN(8)), jsonU64s([]uint64{uint64(1 + r.IntN(8))})),
				post(base+"/renumber", jsonU64s([]uint64{uint64(50 + r.IntN(50)), uint64(1 + r.IntN(8))})),
				post(base+"/nextlabel/2", nil),
				post(fmt.Sprintf("%s/maxlabel/%d", base, 100+r.IntN(100)), nil),
				post(base+"/split-supervoxel/4", EncodeRLEs([]Run{{0, 0, 0, 2}})),
				post(base+"/mappings", nil),
				post(base+"/indices", nil),
				post(base+"/blocks", nil),
				post(base+"/ingest-supervoxels", nil),
				post(base+"/index/1", nil),
				post(base+"/extents", []byte(`{"MinPoint":[0,0,0],"MaxPoint":[64,64,64]}`)),
				post(base+"/resolution", []byte(`[4,4,4]`)),
				post(base+"/tags", []byte(`{"tag1":"x"}`)),
				post(base+"/info", []byte(`{"VoxelUnits":"microns"}`)),
			}
		},
		Reads: func(base string) []proto.Req {
			return []proto.Req{
				drv.GET(base + "/raw/0_1_2/32_32_32/0_0_0?supervoxels=true"), drv.GET(base + "/raw/0_1_2/32_32_32/0_0_0"),
				drv.GET(base + "/raw/0_1_2/16_16_16/0_0_0?scale=1"), drv.GET(base + "/listlabels"), drv.GET(base + "/mappings"),
				getb(base+"/sizes", jsonU64s([]uint64{1, 2, 3, 4, 5, 6, 7, 8})), getb(base+"/mapping", jsonU64s([]uint64{1, 2, 3, 4, 5, 6, 7, 8})),
				drv.GET(base + "/sparsevol/1?format=srles"), drv.GET(base + "/sparsevol-coarse/2"), drv.GET(base + "/supervoxels/1"),
			}
		},
	},
	{
		Type: "annotation", Name: "ann", Config: map[string]interface{}{"BlockSize": "16,16,16"},
		Muts: func(r *rand.Rand, base string) []proto.Req {
			return []proto.Req{
				post(base+"/elements", elemJSON(r, 2)),
				del(fmt.Sprintf("%s/element/%d_%d_%d", base, r.IntN(32), r.IntN(32), r.IntN(32))),
				post(fmt.Sprintf("%s/move/%d_%d_%d/%d_%d_%d", base, r.IntN(32), r.IntN(32), r.IntN(32), r.IntN(32), r.IntN(32), r.IntN(32)), nil),
				post(base+"/blocks", []byte(`{"0,0,0":`+string(elemJSON(r, 1))+`}`)),
				post(base+"/labels", []byte(`{"1":"[]"}`)),
				post(base+"/reload", nil),
				post(base+"/tags", []byte(`{"tag1":"x"}`)),
			}
		},
		Reads: func(base string) []proto.Req {
			return []proto.Req{drv.GET(base + "/all-elements"), drv.GET(base + "/tag/t1"), drv.GET(base + "/tag/t2"), drv.GET(base + "/elements/32_32_32/0_0_0")}
		},
	},
	{
		Type: "roi", Name: "roi", Config: map[string]interface{}{"BlockSize": "16,16,16"},
		Muts: func(r *rand.Rand, base string) []proto.Req {
			z := r.IntN(2)
			return []proto.Req{
				post(base+"/roi", []byte(fmt.Sprintf("[[%d,0,0,1],[%d,1,%d,1]]", z, z, r.IntN(2)))),
				del(base + "/roi"),
			}
		},
		Reads: func(base string) []proto.Req {
			return []proto.Req{drv.GET(base + "/roi"), post(base+"/ptquery", []byte("[[1,1,1],[20,20,20],[100,1,1]]")), drv.GET(base + "/partition?batchsize=1")}
		},
		ReadOnlyPOST: []string{"ptquery"},
	},
	{
		Type: "neuronjson", Name: "nj", Config: map[string]interface{}{},
		Muts: func(r *rand.Rand, base string) []proto.Req {
			id := 10 + r.IntN(4)
			return []proto.Req{
				post(fmt.Sprintf("%s/key/%d?u=sim", base, id), []byte(fmt.Sprintf(`{"bodyid":%d,"type":"t%d","status":"s"}`, id, r.IntN(5)))),
				post(fmt.Sprintf("%s/key/%d?u=sim&replace=true", base, id), []byte(fmt.Sprintf(`{"bodyid":%d,"name":"n%d"}`, id, r.IntN(5)))),
				del(fmt.Sprintf("%s/key/%d", base, 10+r.IntN(4))),
				post(base+"/keyvalues?u=sim", protoKV(fmt.Sprint(id+1), []byte(fmt.Sprintf(`{"bodyid":%d,"type":"kvs"}`, id+1)))),
				post(base+"/schema", []byte(`{"x":1}`)),
				post(base+"/schema_batch", []byte(`{"y":1}`)),
				del(base + "/schema"),
			}
		},
		Reads: func(base string) []proto.Req {
			return []proto.Req{drv.GET(base + "/all?show=all"), drv.GET(base + "/keys"), drv.GET(base + "/fields?counts=true"), drv.GET(base + "/schema"),
				post(base+"/query", []byte(`{"status":"s"}`))}
		},
		ReadOnlyPOST: []string{"query"},
	},
	{
		Type: "uint8blk", Name: "gray", Config: map[string]interface{}{"BlockSize": "16,16,16"},
		Muts: func(r *rand.Rand, base string) []proto.Req {
			b := make([]byte, catB*catB*catB)
			for i := range b {
				b[i] = byte(r.IntN(250))
			}
			off := fmt.Sprintf("%d_%d_%d", 16*r.IntN(2), 16*r.IntN(2), 16*r.IntN(2))
			return []proto.Req{
				post(base+"/raw/0_1_2/16_16_16/"+off+"?mutate=true", b),
				post(base+"/blocks/0_0_0/1", b),
				post(base+"/extents", []byte(`{"MinPoint":[0,0,0],"MaxPoint":[64,64,64]}`)),
				post(base+"/resolution", []byte(`[4,4,4]`)),
			}
		},
		Reads: func(base string) []proto.Req {
			return []proto.Req{drv.GET(base + "/raw/0_1_2/32_32_32/0_0_0"), drv.GET(base + "/info")}
		},
	},
}

func CatByType(t string) *TypeCat {
	for i := range Catalogue {
		if Catalogue[i].Type == t {
			return &Catalogue[i]
		}
	}
	return nil
}

func init() {
	for i := range Catalogue {
		c := &Catalogue[i]
		catalogueFns[c.Type] = c.Reads
	}
	// labelsz has only derived reads
	catalogueFns["labelsz"] = func(base string) []proto.Req {
		return []proto.Req{drv.GET(base + "/count/1/AllSyn"), drv.GET(base + "/count/2/PreSyn"), drv.GET(base + "/top/3/AllSyn")}
	}
}

// EndpointKeywords extracts, from /repo's CURRENT working tree, the endpoint keywords each data
// type's ServeHTTP switches on (every string literal in a `case "…":` of that function).
func EndpointKeywords(typeDir string) []string {
	files, _ := filepath.Glob(filepath.Join("/repo/datatype", typeDir, "*.go"))
	set := map[string]bool{}
	reCase := regexp.MustCompile(`(?m)^\s*case\s+((?:"[^"]*"\s*,?\s*)+):`)
	reStr := regexp.MustCompile(`"([^"]*)"`)
	skip := map[string]bool{"get": true, "post": true, "put": true, "delete": true, "head": true, "true": true, "false": true, "": true, "on": true, "off": true, "0": true, "1": true}
	for _, f := range files {
		if strings.HasSuffix(f, "_test.go") {
			continue
		}
		b, err := os.ReadFile(f)
		if err != nil {
			continue
		}
		s := string(b)
		i := strings.Index(s, ") ServeHTTP(")
		if i < 0 {
			continue
		}
		body := s[i:]
		if j := strings.Index(body[1:], "\nfunc "); j > 0 {
			body = body[:j+1]
		}
		for _, m := range reCase.FindAllStringSubmatch(body, -1) {
			for _, sm := range reStr.FindAllStringSubmatch(m[1], -1) {
				k := sm[1]
				if !skip[strings.ToLower(k)] && !strings.ContainsAny(k, " /?") && len(k) < 40 {
					set[k] = true
				}
			}
		}
	}
	var out []string
	for k := range set {
		out = append(out, k)
	}
	sort.Strings(out)
	return out
}

var typeDirs = map[string]string{"keyvalue": "keyvalue", "labelmap": "labelmap", "annotation": "annotation", "roi": "roi",
	"neuronjson": "neuronjson", "uint8blk": "imageblk", "labelsz": "labelsz"}
