package props

import (
	"bytes"
	"encoding/binary"
	"encoding/json"
	"fmt"
	"image"
	"image/png"
	"math/rand/v2"
	"sort"
	"strings"
	"time"

	"verif/sim/drv"
)

// C17 — image volumes return exactly the voxels that were written.
type C17 struct{ drv.CheckBase }

func init() { drv.Register(&C17{}) }

func (C17) ID() string    { return "C17" }
func (C17) Level() string { return "exploration" }
func (C17) Rule() string {
	return "each run = one seeded history on one image volume of a seeded voxel type (uint8blk, uint16blk, uint32blk, uint64blk, float32blk, rgba8blk), seeded (also anisotropic) block size and, for 8-bit data, background value: " +
		"block-aligned POST raw/0_1_2 writes (ingest and mutate=true) of 1-3 blocks per axis at block coordinates from -2 to 3, ROI-restricted writes, POST blocks/<coord>/<span>, commits, new versions, branches, clean and kill restarts; " +
		"the per-block writer goroutines are interleaved by the seeded scheduler. Oracle (dense per-version block map): after every write and finally on all versions, " +
		"3-D GET raw/0_1_2 boxes of any alignment (inside, straddling and wholly outside written data, negative offsets), 2-D PNG slices in the three orthogonal planes, GET blocks spans, subvolblocks and specificblocks streams (uncompressed) " +
		"must return the written bytes bit-identically and the background value for unwritten voxels; info extents must cover every written voxel; a ROI-restricted write must leave blocks outside the ROI untouched. " +
		"non-trivial = at least 2 writes and one read geometry straddling written and unwritten blocks; distinct = distinct (steps, schedule) hash"
}
func (C17) Assumptions() []string { return commonAssumptions }
func (C17) Budget(tier string) (int, time.Duration) {
	return budget(tier, 160, 12000, 100*time.Second, 30*time.Minute)
}

var imgTypes = []struct {
	Name string
	BPV  int
}{{"uint8blk", 1}, {"uint16blk", 2}, {"uint32blk", 4}, {"uint64blk", 8}, {"float32blk", 4}, {"rgba8blk", 4}}

func (C17) Generate(r *rand.Rand, tier string, idx int) *drv.Scenario {
	t := r.IntN(len(imgTypes))
	bsz := []int{4, 8, 16}
	bs := []int{pick(r, bsz), pick(r, bsz), pick(r, bsz)}
	if r.IntN(2) == 0 {
		bs[1], bs[2] = bs[0], bs[0]
	}
	bg := 0
	if imgTypes[t].BPV == 1 && r.IntN(2) == 0 {
		bg = 1 + r.IntN(250)
	}
	seed := func() int64 { return int64(r.Uint64N(1 << 40)) }
	steps := []drv.Op{{Op: "irepo", T: imgTypes[t].Name, P: [][]int{bs}, M: int64(bg), N: seed()}}
	d := NewDAG()
	d.Add(0, VUUID(0), nil, "", 0)
	brc := 0
	n := 6 + r.IntN(12)
	for i := 0; i < n; i++ {
		open, locked := d.Open(0), d.LockedNodes(0)
		if r.Float64() < 0.04 {
			steps = append(steps, drv.Op{Op: "restart", Mode: pick(r, []string{"clean", "kill"})})
			continue
		}
		if len(open) == 0 || (r.IntN(9) == 0 && len(locked) > 0 && len(d.Nodes) < 5) {
			if len(locked) == 0 {
				v := pick(r, open)
				d.Nodes[v].Locked = true
				steps = append(steps, drv.Op{Op: "commit", V: v})
				continue
			}
			var c []int
			for _, p := range locked {
				if d.CanNewVersion(p) {
					c = append(c, p)
				}
			}
			id := d.NextIdx()
			if len(c) > 0 && r.IntN(2) == 0 {
				p := pick(r, c)
				d.Add(id, VUUID(id), []int{p}, d.Nodes[p].Branch, 0)
				steps = append(steps, drv.Op{Op: "newver", V: p, N: int64(id)})
			} else {
				p := pick(r, locked)
				brc++
				name := fmt.Sprintf("ib%d", brc)
				d.Add(id, VUUID(id), []int{p}, name, 0)
				steps = append(steps, drv.Op{Op: "branch", V: p, Br: name, N: int64(id)})
			}
			continue
		}
		v := pick(r, open)
		switch y := r.IntN(100); {
		case y < 45:
			steps = append(steps, drv.Op{Op: "iwrite", V: v, N: seed()})
		case y < 58:
			steps = append(steps, drv.Op{Op: "iwrite", V: v, N: seed(), Mode: "roi"})
		case y < 75:
			steps = append(steps, drv.Op{Op: "iblocks", V: v, N: seed()})
		case y < 82:
			d.Nodes[v].Locked = true
			steps = append(steps, drv.Op{Op: "commit", V: v})
		default:
			steps = append(steps, drv.Op{Op: "icheck", V: v, N: seed()})
		}
	}
	steps = append(steps, drv.Op{Op: "icheckall", N: seed()})
	return &drv.Scenario{Family: imgTypes[t].Name, Knobs: baseKnobs(r), Steps: steps, Fixed: 1}
}

type imgVersion struct{ B map[[3]int][]byte }

type ImgExec struct {
	W    *drv.World
	D    *DAG
	Vers map[int]*imgVersion
	Type string
	BPV  int
	BS   [3]int
	BG   byte
	ROI  map[[3]int]bool
	Last string
}

func (x *ImgExec) uuid(v int) string { return x.D.Nodes[v].UUID }
func (x *ImgExec) base(v int) string { return "/api/node/" + x.uuid(v) + "/img" }
func (x *ImgExec) viol(oracle, sig, detail string) *drv.Violation {
	return &drv.Violation{Prop: "C17", Oracle: oracle, Sig: sig, Detail: detail}
}
func (x *ImgExec) blockBytes() int { return x.BS[0] * x.BS[1] * x.BS[2] * x.BPV }

// voxel returns the expected bytes of one voxel.
func (x *ImgExec) voxel(iv *imgVersion, p [3]int, out []byte) {
	b := [3]int{floorDiv(p[0], x.BS[0]), floorDiv(p[1], x.BS[1]), floorDiv(p[2], x.BS[2])}
	blk := iv.B[b]
	if blk == nil {
		for i := range out {
			out[i] = 0
		}
		if x.BPV == 1 {
			out[0] = x.BG
		}
		return
	}
	l := [3]int{p[0] - b[0]*x.BS[0], p[1] - b[1]*x.BS[1], p[2] - b[2]*x.BS[2]}
	o := ((l[2]*x.BS[1]+l[1])*x.BS[0] + l[0]) * x.BPV
	copy(out, blk[o:o+x.BPV])
}

// box returns the expected bytes of a box (X fastest).
func (x *ImgExec) box(iv *imgVersion, off, size [3]int) []byte {
	out := make([]byte, size[0]*size[1]*size[2]*x.BPV)
	i := 0
	for z := 0; z < size[2]; z++ {
		for y := 0; y < size[1]; y++ {
			for xx := 0; xx < size[0]; xx++ {
				x.voxel(iv, [3]int{off[0] + xx, off[1] + y, off[2] + z}, out[i:i+x.BPV])
				i += x.BPV
			}
		}
	}
	return out
}

func (x *ImgExec) Apply(op drv.Op) (*drv.Violation, error) {
	w := x.W
	r := drv.NewRNG(uint64(op.N)*0x9e3779b97f4a7c15 + 4242)
	switch op.Op {
	case "irepo":
		u := VUUID(0)
		st, body, e := w.HTTP("POST", "/api/repos", jsonBody(map[string]interface{}{"alias": "irepo", "description": "sim", "root": u}))
		if e != nil {
			return nil, e
		}
		if st != 200 {
			return nil, fmt.Errorf("%w: cannot create repo: %d %s", drv.ErrInfra, st, body)
		}
		x.D.Add(0, u, nil, "", 0)
		x.Type = op.T
		for _, t := range imgTypes {
			if t.Name == op.T {
				x.BPV = t.BPV
			}
		}
		x.BS = [3]int{op.P[0][0], op.P[0][1], op.P[0][2]}
		x.BG = byte(op.M)
		cfg := map[string]interface{}{"typename": op.T, "dataname": "img", "BlockSize": fmt.Sprintf("%d,%d,%d", x.BS[0], x.BS[1], x.BS[2])}
		if op.M != 0 {
			cfg["Background"] = fmt.Sprint(op.M)
		}
		st, body, e = w.HTTP("POST", "/api/repo/"+u+"/instance", jsonBody(cfg))
		if e != nil {
			return nil, e
		}
		if st != 200 {
			return nil, fmt.Errorf("%w: cannot create %s instance: %d %s", drv.ErrInfra, op.T, st, body)
		}
		st, body, e = w.HTTP("POST", "/api/repo/"+u+"/instance", jsonBody(map[string]interface{}{"typename": "roi", "dataname": "reg", "BlockSize": fmt.Sprintf("%d,%d,%d", x.BS[0], x.BS[1], x.BS[2])}))
		if e != nil {
			return nil, e
		}
		if st != 200 {
			return nil, fmt.Errorf("%w: cannot create roi: %d %s", drv.ErrInfra, st, body)
		}
		x.ROI = map[[3]int]bool{}
		var spans [][4]int
		for i := 0; i < 2+r.IntN(4); i++ {
			z, y := -2+r.IntN(6), -2+r.IntN(6)
			x0 := -2 + r.IntN(5)
			x1 := x0 + r.IntN(3)
			clash := false
			for _, s := range spans {
				if s[0] == z && s[1] == y {
					clash = true
				}
			}
			if clash {
				continue
			}
			spans = append(spans, [4]int{z, y, x0, x1})
			for bx := x0; bx <= x1; bx++ {
				x.ROI[[3]int{bx, y, z}] = true
			}
		}
		sort.Slice(spans, func(i, j int) bool {
			for k := 0; k < 4; k++ {
				if spans[i][k] != spans[j][k] {
					return spans[i][k] < spans[j][k]
				}
			}
			return false
		})
		sb, _ := json.Marshal(spans)
		st, body, e = w.HTTP("POST", "/api/node/"+u+"/reg/roi", sb)
		if e != nil {
			return nil, e
		}
		if st != 200 {
			return nil, fmt.Errorf("%w: cannot post roi: %d %s", drv.ErrInfra, st, body)
		}
		x.Vers[0] = &imgVersion{B: map[[3]int][]byte{}}
		return nil, nil
	case "commit":
		if !x.D.Has(op.V) {
			return nil, nil
		}
		n := x.D.Nodes[op.V]
		st, _, e := w.HTTP("POST", "/api/node/"+n.UUID+"/commit", jsonBody(map[string]interface{}{"note": "c"}))
		if e != nil {
			return nil, e
		}
		if st == 200 {
			n.Locked = true
		}
		return nil, nil
	case "newver", "branch":
		if !x.D.Has(op.V) || x.D.Has(int(op.N)) || !x.D.Nodes[op.V].Locked {
			return nil, nil
		}
		p := x.D.Nodes[op.V]
		id := int(op.N)
		body := map[string]interface{}{"uuid": VUUID(id)}
		action, br := "newversion", p.Branch
		if op.Op == "branch" {
			action, br = "branch", op.Br
			body["branch"] = op.Br
		}
		st, _, e := w.HTTP("POST", "/api/node/"+p.UUID+"/"+action, jsonBody(body))
		if e != nil {
			return nil, e
		}
		if st != 200 {
			w.Stats.Probe("setup-rejected")
			return nil, nil
		}
		x.D.Add(id, VUUID(id), []int{op.V}, br, 0)
		c := &imgVersion{B: map[[3]int][]byte{}}
		for k, b := range x.Vers[op.V].B {
			c.B[k] = b
		}
		x.Vers[id] = c
		return nil, nil
	case "restart":
		kind := op.Mode
		if kind == "" {
			kind = "clean"
		}
		_, e := w.Restart(kind)
		return nil, e
	}
	if !x.D.Has(op.V) || x.D.Nodes[op.V].Locked || x.Vers[op.V] == nil {
		return nil, nil
	}
	iv := x.Vers[op.V]
	fill := func(n int) []byte {
		b := make([]byte, n)
		switch r.IntN(4) {
		case 0: // constant voxel
			vx := make([]byte, x.BPV)
			for i := range vx {
				vx[i] = byte(1 + r.IntN(255))
			}
			for i := 0; i < n; i++ {
				b[i] = vx[i%x.BPV]
			}
		default:
			for i := range b {
				b[i] = byte(r.IntN(256))
			}
			if r.IntN(3) == 0 { // sprinkle zero voxels (equal to the background)
				for i := 0; i+x.BPV <= n; i += x.BPV * (1 + r.IntN(5)) {
					for k := 0; k < x.BPV; k++ {
						b[i+k] = 0
					}
				}
			}
		}
		return b
	}
	switch op.Op {
	case "iwrite":
		var b0, nb [3]int
		for a := 0; a < 3; a++ {
			nb[a] = 1 + r.IntN(2)
			if r.IntN(5) == 0 {
				nb[a] = 3
			}
			b0[a] = -2 + r.IntN(6-nb[a]+1)
		}
		size := [3]int{nb[0] * x.BS[0], nb[1] * x.BS[1], nb[2] * x.BS[2]}
		off := [3]int{b0[0] * x.BS[0], b0[1] * x.BS[1], b0[2] * x.BS[2]}
		data := fill(size[0] * size[1] * size[2] * x.BPV)
		url := fmt.Sprintf("%s/raw/0_1_2/%d_%d_%d/%d_%d_%d", x.base(op.V), size[0], size[1], size[2], off[0], off[1], off[2])
		var q []string
		anyWritten := false
		for bz := 0; bz < nb[2]; bz++ {
			for by := 0; by < nb[1]; by++ {
				for bx := 0; bx < nb[0]; bx++ {
					if iv.B[[3]int{b0[0] + bx, b0[1] + by, b0[2] + bz}] != nil {
						anyWritten = true
					}
				}
			}
		}
		if anyWritten || r.IntN(4) == 0 {
			q = append(q, "mutate=true")
		}
		if op.Mode == "roi" {
			q = append(q, "roi=reg")
		}
		if len(q) > 0 {
			url += "?" + strings.Join(q, "&")
		}
		x.Last = "POST raw/0_1_2"
		if op.Mode == "roi" {
			x.Last = "ROI-restricted POST raw/0_1_2"
		}
		st, body, e := w.HTTP("POST", url, data)
		if e != nil {
			return nil, e
		}
		if st != 200 {
			return x.viol("write-ack", "valid block-aligned write refused", fmt.Sprintf("POST %s (%d bytes) -> %d %s", url, len(data), st, trunc(body))), nil
		}
		for bz := 0; bz < nb[2]; bz++ {
			for by := 0; by < nb[1]; by++ {
				for bx := 0; bx < nb[0]; bx++ {
					bc := [3]int{b0[0] + bx, b0[1] + by, b0[2] + bz}
					if op.Mode == "roi" && !x.ROI[bc] {
						continue
					}
					blk := make([]byte, x.blockBytes())
					i := 0
					for z := 0; z < x.BS[2]; z++ {
						for y := 0; y < x.BS[1]; y++ {
							so := (((bz*x.BS[2]+z)*size[1]+by*x.BS[1]+y)*size[0] + bx*x.BS[0]) * x.BPV
							copy(blk[i:i+x.BS[0]*x.BPV], data[so:so+x.BS[0]*x.BPV])
							i += x.BS[0] * x.BPV
						}
					}
					iv.B[bc] = blk
				}
			}
		}
		w.Stats.Probe("image-write")
		if op.Mode == "roi" {
			w.Stats.Probe("image-roi-write")
		}
		return nil, nil
	case "iblocks":
		span := 1 + r.IntN(3)
		b0 := [3]int{-2 + r.IntN(6-span+1), -2 + r.IntN(6), -2 + r.IntN(6)}
		data := fill(span * x.blockBytes())
		url := fmt.Sprintf("%s/blocks/%d_%d_%d/%d", x.base(op.V), b0[0], b0[1], b0[2], span)
		x.Last = "POST blocks"
		st, body, e := w.HTTP("POST", url, data)
		if e != nil {
			return nil, e
		}
		if st != 200 {
			return x.viol("write-ack", "valid POST blocks refused", fmt.Sprintf("POST %s (%d bytes) -> %d %s", url, len(data), st, trunc(body))), nil
		}
		for i := 0; i < span; i++ {
			iv.B[[3]int{b0[0] + i, b0[1], b0[2]}] = data[i*x.blockBytes() : (i+1)*x.blockBytes()]
		}
		w.Stats.Probe("image-blocks-write")
		return nil, nil
	}
	return nil, nil
}

func pngBytes(b []byte) ([]byte, int, int, error) {
	img, err := png.Decode(bytes.NewReader(b))
	if err != nil {
		return nil, 0, 0, err
	}
	bd := img.Bounds()
	wd, ht := bd.Dx(), bd.Dy()
	var pix []byte
	var stride, bpp int
	switch m := img.(type) {
	case *image.Gray:
		pix, stride, bpp = m.Pix, m.Stride, 1
	case *image.Gray16:
		// the PNG holds the numeric 16-bit value (big-endian samples); stored voxels are little-endian
		pix, stride, bpp = make([]byte, len(m.Pix)), m.Stride, 2
		for i := 0; i+1 < len(m.Pix); i += 2 {
			pix[i], pix[i+1] = m.Pix[i+1], m.Pix[i]
		}
	case *image.NRGBA:
		pix, stride, bpp = m.Pix, m.Stride, 4
	case *image.RGBA:
		pix, stride, bpp = m.Pix, m.Stride, 4 // opaque: identical to the non-premultiplied form
	case *image.NRGBA64:
		pix, stride, bpp = m.Pix, m.Stride, 8
	case *image.RGBA64:
		pix, stride, bpp = m.Pix, m.Stride, 8
	default:
		return nil, 0, 0, fmt.Errorf("unexpected PNG colour model %T", img)
	}
	out := make([]byte, 0, wd*ht*bpp)
	for y := 0; y < ht; y++ {
		out = append(out, pix[y*stride:y*stride+wd*bpp]...)
	}
	return out, wd, ht, nil
}

func firstDiff(a, b []byte) int {
	n := len(a)
	if len(b) < n {
		n = len(b)
	}
	for i := 0; i < n; i++ {
		if a[i] != b[i] {
			return i
		}
	}
	if len(a) != len(b) {
		return n
	}
	return -1
}

func (x *ImgExec) Check(v int, r *rand.Rand) (*drv.Violation, error) {
	w := x.W
	iv := x.Vers[v]
	if iv == nil || !x.D.Has(v) {
		return nil, nil
	}
	after := x.Last
	if after == "" {
		after = "set-up"
	}
	ctx := fmt.Sprintf("version %d(%s) type %s block %v background %d", v, x.uuid(v)[:4], x.Type, x.BS, x.BG)
	fail := func(view, url string, got, want []byte, geom string) *drv.Violation {
		i := firstDiff(got, want)
		return x.viol("read-vs-written", fmt.Sprintf("%s differs from the written voxels (last write: %s)", view, after),
			fmt.Sprintf("%s GET %s: %d bytes returned, %d expected, first difference at byte %d (voxel %d) %s: got % x want % x\nwritten blocks: %v",
				ctx, url, len(got), len(want), i, i/x.BPV, geom, clipB(got, i), clipB(want, i), x.writtenList(iv)))
	}
	get := func(url string) ([]byte, *drv.Violation, error) {
		st, b, err := w.HTTP("GET", url, nil)
		if err != nil {
			return nil, nil, err
		}
		if st != 200 {
			return nil, x.viol("read-fails", "valid read refused", fmt.Sprintf("%s GET %s -> %d %s", ctx, url, st, trunc(b))), nil
		}
		return b, nil, nil
	}
	rndBox := func(maxBlocks int) (off, size [3]int) {
		for a := 0; a < 3; a++ {
			off[a] = -3*x.BS[a] + r.IntN(7*x.BS[a])
			size[a] = 1 + r.IntN(maxBlocks*x.BS[a])
			switch r.IntN(5) {
			case 0:
				off[a] = floorDiv(off[a], x.BS[a]) * x.BS[a]
			case 1:
				off[a] = floorDiv(off[a], x.BS[a])*x.BS[a] - 1
			}
		}
		return
	}
	straddle := func(off, size [3]int) {
		wr, un := false, false
		for bz := floorDiv(off[2], x.BS[2]); bz <= floorDiv(off[2]+size[2]-1, x.BS[2]); bz++ {
			for by := floorDiv(off[1], x.BS[1]); by <= floorDiv(off[1]+size[1]-1, x.BS[1]); by++ {
				for bx := floorDiv(off[0], x.BS[0]); bx <= floorDiv(off[0]+size[0]-1, x.BS[0]); bx++ {
					if iv.B[[3]int{bx, by, bz}] != nil {
						wr = true
					} else {
						un = true
					}
				}
			}
		}
		if wr && un {
			w.Stats.Probe("read-straddles-written-and-unwritten")
		}
		if !wr {
			w.Stats.Probe("read-wholly-unwritten")
		}
	}
	// 3-D boxes
	for i := 0; i < 4; i++ {
		off, size := rndBox(2)
		if size[0]*size[1]*size[2] > 60000 {
			continue
		}
		straddle(off, size)
		url := fmt.Sprintf("%s/raw/0_1_2/%d_%d_%d/%d_%d_%d", x.base(v), size[0], size[1], size[2], off[0], off[1], off[2])
		b, vv, err := get(url)
		if vv != nil || err != nil {
			return vv, err
		}
		if want := x.box(iv, off, size); !bytes.Equal(b, want) {
			return fail("3-D subvolume", url, b, want, ""), nil
		}
	}
	// 2-D slices
	planes := []struct {
		name string
		a, b int
	}{{"0_1", 0, 1}, {"0_2", 0, 2}, {"1_2", 1, 2}}
	for _, pl := range planes {
		off, size := rndBox(2)
		s3 := [3]int{1, 1, 1}
		s3[pl.a], s3[pl.b] = size[pl.a], size[pl.b]
		straddle(off, s3)
		url := fmt.Sprintf("%s/raw/%s/%d_%d/%d_%d_%d", x.base(v), pl.name, size[pl.a], size[pl.b], off[0], off[1], off[2])
		b, vv, err := get(url)
		if vv != nil || err != nil {
			return vv, err
		}
		got, wd, ht, err := pngBytes(b)
		if err != nil {
			return x.viol("read-fails", "slice is not a decodable PNG", fmt.Sprintf("%s GET %s: %v", ctx, url, err)), nil
		}
		want := x.box(iv, off, s3)
		if wd != size[pl.a] || ht != size[pl.b] || !bytes.Equal(got, want) {
			return fail("2-D slice "+pl.name, url, got, want, fmt.Sprintf("(image %dx%d)", wd, ht)), nil
		}
		w.Stats.Probe("slice-" + pl.name)
	}
	// block spans
	for i := 0; i < 3; i++ {
		span := 1 + r.IntN(4)
		b0 := [3]int{-3 + r.IntN(7), -3 + r.IntN(7), -3 + r.IntN(7)}
		url := fmt.Sprintf("%s/blocks/%d_%d_%d/%d", x.base(v), b0[0], b0[1], b0[2], span)
		b, vv, err := get(url)
		if vv != nil || err != nil {
			return vv, err
		}
		var want []byte
		for k := 0; k < span; k++ {
			bc := [3]int{b0[0] + k, b0[1], b0[2]}
			want = append(want, x.box(iv, [3]int{bc[0] * x.BS[0], bc[1] * x.BS[1], bc[2] * x.BS[2]}, x.BS)...)
		}
		if !bytes.Equal(b, want) {
			return fail("blocks span", url, b, want, ""), nil
		}
	}
	// block streams
	parseStream := func(b []byte) (map[[3]int][]byte, error) {
		out := map[[3]int][]byte{}
		for len(b) > 0 {
			if len(b) < 16 {
				return nil, fmt.Errorf("truncated block header (%d bytes left)", len(b))
			}
			bc := [3]int{int(int32(binary.LittleEndian.Uint32(b[0:]))), int(int32(binary.LittleEndian.Uint32(b[4:]))), int(int32(binary.LittleEndian.Uint32(b[8:])))}
			n := int(int32(binary.LittleEndian.Uint32(b[12:])))
			if n < 0 || 16+n > len(b) {
				return nil, fmt.Errorf("block %v announces %d bytes, %d left", bc, n, len(b)-16)
			}
			if _, dup := out[bc]; dup {
				return nil, fmt.Errorf("block %v sent twice", bc)
			}
			out[bc] = b[16 : 16+n]
			b = b[16+n:]
		}
		return out, nil
	}
	cmpStream := func(view, url string, got map[[3]int][]byte, asked [][3]int) *drv.Violation {
		want := map[[3]int]bool{}
		for _, bc := range asked {
			if iv.B[bc] != nil {
				want[bc] = true
			}
		}
		for bc, data := range got {
			if !want[bc] {
				return x.viol("read-vs-written", fmt.Sprintf("%s returns a block that was not written or not asked for (last write: %s)", view, after),
					fmt.Sprintf("%s GET %s: block %v (%d bytes); written blocks: %v", ctx, url, bc, len(data), x.writtenList(iv)))
			}
			if !bytes.Equal(data, iv.B[bc]) {
				return fail(view, url, data, iv.B[bc], fmt.Sprintf("in block %v", bc))
			}
		}
		for bc := range want {
			if got[bc] == nil {
				return x.viol("read-vs-written", fmt.Sprintf("%s omits a written block (last write: %s)", view, after),
					fmt.Sprintf("%s GET %s: block %v missing; returned %d blocks; written blocks: %v", ctx, url, bc, len(got), x.writtenList(iv)))
			}
		}
		return nil
	}
	for i := 0; i < 2; i++ {
		var b0, nb [3]int
		var asked [][3]int
		for a := 0; a < 3; a++ {
			nb[a] = 1 + r.IntN(3)
			b0[a] = -3 + r.IntN(7-nb[a]+1)
		}
		for bz := 0; bz < nb[2]; bz++ {
			for by := 0; by < nb[1]; by++ {
				for bx := 0; bx < nb[0]; bx++ {
					asked = append(asked, [3]int{b0[0] + bx, b0[1] + by, b0[2] + bz})
				}
			}
		}
		url := fmt.Sprintf("%s/subvolblocks/%d_%d_%d/%d_%d_%d?compression=uncompressed", x.base(v), nb[0]*x.BS[0], nb[1]*x.BS[1], nb[2]*x.BS[2], b0[0]*x.BS[0], b0[1]*x.BS[1], b0[2]*x.BS[2])
		b, vv, err := get(url)
		if vv != nil || err != nil {
			return vv, err
		}
		got, err := parseStream(b)
		if err != nil {
			return x.viol("read-fails", "subvolblocks stream is malformed", fmt.Sprintf("%s GET %s: %v", ctx, url, err)), nil
		}
		if vv := cmpStream("subvolblocks", url, got, asked); vv != nil {
			return vv, nil
		}
	}
	{
		var asked [][3]int
		var parts []string
		seen := map[[3]int]bool{}
		for i := 0; i < 1+r.IntN(5); i++ {
			bc := [3]int{-3 + r.IntN(7), -3 + r.IntN(7), -3 + r.IntN(7)}
			if wl := x.writtenList(iv); len(wl) > 0 && r.IntN(2) == 0 {
				bc = pick(r, wl)
			}
			if seen[bc] {
				continue
			}
			seen[bc] = true
			asked = append(asked, bc)
			parts = append(parts, fmt.Sprintf("%d,%d,%d", bc[0], bc[1], bc[2]))
		}
		url := fmt.Sprintf("%s/specificblocks?compression=uncompressed&blocks=%s", x.base(v), strings.Join(parts, ","))
		b, vv, err := get(url)
		if vv != nil || err != nil {
			return vv, err
		}
		got, err := parseStream(b)
		if err != nil {
			return x.viol("read-fails", "specificblocks stream is malformed", fmt.Sprintf("%s GET %s: %v", ctx, url, err)), nil
		}
		if vv := cmpStream("specificblocks", url, got, asked); vv != nil {
			return vv, nil
		}
	}
	// extents
	if len(iv.B) > 0 {
		url := x.base(v) + "/info"
		b, vv, err := get(url)
		if vv != nil || err != nil {
			return vv, err
		}
		var info struct {
			Extended struct {
				MinPoint, MaxPoint []int
			}
		}
		if err := json.Unmarshal(b, &info); err != nil {
			return x.viol("read-fails", "info is not valid JSON", fmt.Sprintf("%s GET %s: %v", ctx, url, err)), nil
		}
		lo, hi := [3]int{1 << 30, 1 << 30, 1 << 30}, [3]int{-(1 << 30), -(1 << 30), -(1 << 30)}
		for bc := range iv.B {
			for a := 0; a < 3; a++ {
				if bc[a]*x.BS[a] < lo[a] {
					lo[a] = bc[a] * x.BS[a]
				}
				if (bc[a]+1)*x.BS[a]-1 > hi[a] {
					hi[a] = (bc[a]+1)*x.BS[a] - 1
				}
			}
		}
		ok := len(info.Extended.MinPoint) == 3 && len(info.Extended.MaxPoint) == 3
		for a := 0; ok && a < 3; a++ {
			if info.Extended.MinPoint[a] > lo[a] || info.Extended.MaxPoint[a] < hi[a] {
				ok = false
			}
		}
		if !ok {
			return x.viol("extents", fmt.Sprintf("advertised extents do not cover every written voxel (last write: %s)", after),
				fmt.Sprintf("%s GET %s: MinPoint %v MaxPoint %v; written voxels span %v .. %v; written blocks: %v", ctx, url, info.Extended.MinPoint, info.Extended.MaxPoint, lo, hi, x.writtenList(iv))), nil
		}
	}
	w.Stats.Probe("image-views-checked")
	return nil, nil
}

func clipB(b []byte, i int) []byte {
	if i < 0 || i >= len(b) {
		return nil
	}
	j := i + 8
	if j > len(b) {
		j = len(b)
	}
	return b[i:j]
}

func (x *ImgExec) writtenList(iv *imgVersion) [][3]int {
	var out [][3]int
	for bc := range iv.B {
		out = append(out, bc)
	}
	sort.Slice(out, func(i, j int) bool { return lessPt(out[i], out[j]) })
	return out
}

func (C17) Execute(sc *drv.Scenario, w *drv.World) (*drv.Violation, error) {
	if _, err := w.Start(); err != nil {
		return nil, err
	}
	x := &ImgExec{W: w, D: NewDAG(), Vers: map[int]*imgVersion{}}
	for i, op := range sc.Steps {
		w.CurStep = i
		r := drv.NewRNG(uint64(op.N)*77 + uint64(i))
		switch op.Op {
		case "icheck", "icheckall":
			vs := []int{op.V}
			if op.Op == "icheckall" {
				vs = x.D.Sorted()
			}
			for _, vi := range vs {
				if v, err := x.Check(vi, r); v != nil || err != nil {
					if v != nil {
						v.Step = i
					}
					return v, err
				}
			}
			continue
		}
		v, err := x.Apply(op)
		if err != nil {
			return nil, err
		}
		if v != nil {
			v.Step = i
			return v, nil
		}
		switch op.Op {
		case "iwrite", "iblocks", "restart":
		default:
			continue
		}
		vs := []int{op.V}
		if op.Op == "restart" {
			vs = x.D.Sorted()
		}
		for _, vi := range vs {
			if v, err := x.Check(vi, r); v != nil || err != nil {
				if v != nil {
					v.Step = i
				}
				return v, err
			}
		}
		if op.Op != "restart" && x.D.Has(op.V) && len(x.D.Nodes[op.V].Parents) > 0 && i%2 == 0 {
			if v, err := x.Check(x.D.Nodes[op.V].Parents[0], r); v != nil || err != nil {
				if v != nil {
					v.Step = i
				}
				return v, err
			}
		}
	}
	w.Discard()
	return nil, nil
}

func (C17) NonTrivial(sc *drv.Scenario, st *drv.RunStats) bool {
	return st.Probes["image-write"]+st.Probes["image-blocks-write"] >= 2 && st.Probes["read-straddles-written-and-unwritten"] > 0
}
