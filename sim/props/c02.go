package props

import (
	"fmt"
	"math/rand/v2"
	"strings"
	"time"

	"verif/sim/drv"
	"verif/sim/proto"
)

// C02 — committed versions are immutable.
type C02 struct{ drv.CheckBase }

func init() { drv.Register(&C02{}) }

func (C02) ID() string    { return "C02" }
func (C02) Level() string { return "exploration" }
func (C02) Rule() string {
	return c02Rule() + " A resolve family (every fifth run) commits two branches that conflict on keys of one instance and resolves them together with instances in which they do not conflict (POST resolve also replaces half of the merges of the history family): conflict deletions must land in extension versions, the committed parents must read as before."
}

func c02Rule() string {
	return "each run = a repo holding one instance of every exercised data type (keyvalue, labelmap, annotation synced to the labelmap, labelsz, roi, neuronjson, uint8blk), populated and committed; then " +
		"(a) route-gate enumeration: the endpoint keywords of every type are extracted at check time from the `case \"...\"` labels of its ServeHTTP in /repo's working tree; for each keyword x {POST, PUT, DELETE} (sampled in quick, all in thorough) " +
		"plus the catalogue's syntactically valid mutation requests plus the node-level routes (note, log, commit, instance creation) a request is sent to the COMMITTED version in the run's server mode " +
		"(default, read-only, full-write, default+admin token): in default and read-only mode it must be refused (only POSTs a type declares read-only - query, ptquery - may succeed) and the committed version's complete snapshot must be unchanged; " +
		"branch / new-version must stay allowed; (b) the run continues with a seeded history (mutations of every type in children and siblings, merges of versions, label merges/cleaves/splits, deletion of another instance with its background sweep, restarts) " +
		"and the snapshot of every committed version is re-read after every step and must stay identical. " +
		"non-trivial = at least one later mutation in a descendant and one gate probe; distinct = distinct (steps, schedule, faults, mode) hash"
}
func (C02) Assumptions() []string {
	return append([]string{"the snapshot is the catalogue's read set (values, keys, voxels mapped and unmapped, scale-1 voxels, label lists, sizes, mappings, sparse volumes, annotations by block/tag/box, ROI spans and point queries, neuron annotations with stamps, field counts, image voxels, note/log/status)"}, commonAssumptions...)
}
func (C02) Budget(tier string) (int, time.Duration) {
	return budget(tier, 60, 4000, 110*time.Second, 30*time.Minute)
}

func (C02) Generate(r *rand.Rand, tier string, idx int) *drv.Scenario {
	mode := []string{"", "", "", "readonly", "fullwrite", "admintoken"}[r.IntN(6)]
	frac := 4
	if tier == "thorough" {
		frac = 1
	}
	steps := []drv.Op{{Op: "c2setup", N: int64(r.Uint64N(1 << 40))}, {Op: "c2mode", T: mode}, {Op: "c2gate", N: int64(r.Uint64N(1 << 40)), M: int64(frac)}}
	d := NewDAG()
	d.Add(0, VUUID(0), nil, "", 0).Locked = true
	if mode == "readonly" {
		// nothing can be written later in read-only mode
		steps = append(steps, drv.Op{Op: "c2check"})
		k := baseKnobs(r)
		return &drv.Scenario{Family: "gate-" + mode, Knobs: k, Steps: steps, Fixed: 2}
	}
	if idx%5 == 3 {
		// resolve family: two committed branches that conflict on keys of one instance, resolved together with
		// instances in which they do not conflict; the committed branch heads must read as before
		steps = append(steps,
			drv.Op{Op: "branch", V: 0, Br: "ra", N: 1}, drv.Op{Op: "branch", V: 0, Br: "rb", N: 2})
		nk := 1 + r.IntN(3)
		for i := 0; i < nk; i++ {
			k := fmt.Sprintf("rk%d", i)
			if r.IntN(4) != 0 {
				steps = append(steps, drv.Op{Op: "c2rput", V: 1, K: k, Val: "a" + k})
			}
			steps = append(steps, drv.Op{Op: "c2rput", V: 2, K: k, Val: "b" + k})
		}
		if r.IntN(2) == 0 {
			steps = append(steps, drv.Op{Op: "c2mut", V: 1 + r.IntN(2), N: int64(r.Uint64N(1 << 40))})
		}
		steps = append(steps, drv.Op{Op: "commit", V: 1}, drv.Op{Op: "commit", V: 2})
		names := []string{"roi", "nj", "gray", "kvx"}
		r.Shuffle(len(names), func(i, j int) { names[i], names[j] = names[j], names[i] })
		data := append([]string(nil), names[:1+r.IntN(2)]...)
		data = append(data, "kv")
		if r.IntN(3) == 0 {
			r.Shuffle(len(data), func(i, j int) { data[i], data[j] = data[j], data[i] })
		}
		ps := []int{1, 2}
		if r.IntN(2) == 0 {
			ps = []int{2, 1}
		}
		steps = append(steps, drv.Op{Op: "c2resolve", Ps: ps, N: 3, S: data}, drv.Op{Op: "c2check"})
		return &drv.Scenario{Family: "resolve-" + mode, Knobs: baseKnobs(r), Steps: steps, Fixed: 2}
	}
	brc := 0
	n := 8 + r.IntN(14)
	for i := 0; i < n; i++ {
		open, locked := d.Open(0), d.LockedNodes(0)
		x := r.IntN(100)
		switch {
		case len(open) == 0 || x < 14:
			var c []int
			for _, p := range locked {
				if d.CanNewVersion(p) {
					c = append(c, p)
				}
			}
			idx := d.NextIdx()
			if len(c) > 0 && r.IntN(2) == 0 {
				p := pick(r, c)
				d.Add(idx, VUUID(idx), []int{p}, d.Nodes[p].Branch, 0)
				steps = append(steps, drv.Op{Op: "newver", V: p, N: int64(idx)})
			} else {
				brc++
				p := pick(r, locked)
				d.Add(idx, VUUID(idx), []int{p}, fmt.Sprintf("b%d", brc), 0)
				steps = append(steps, drv.Op{Op: "branch", V: p, Br: fmt.Sprintf("b%d", brc), N: int64(idx)})
			}
		case x < 70:
			steps = append(steps, drv.Op{Op: "c2mut", V: pick(r, open), N: int64(r.Uint64N(1 << 40))})
		case x < 80:
			v := pick(r, open)
			d.Nodes[v].Locked = true
			steps = append(steps, drv.Op{Op: "commit", V: v})
		case x < 85 && len(locked) >= 2:
			ps := append([]int(nil), locked...)
			r.Shuffle(len(ps), func(i, j int) { ps[i], ps[j] = ps[j], ps[i] })
			idx := d.NextIdx()
			d.Add(idx, "", ps[:2], "", 0)
			if r.IntN(2) == 0 {
				// resolve: conflicts of the listed instances are deleted in extension versions, never in the committed parents
				names := []string{"kv", "roi", "nj", "gray", "kvx"}
				r.Shuffle(len(names), func(i, j int) { names[i], names[j] = names[j], names[i] })
				steps = append(steps, drv.Op{Op: "c2resolve", Ps: ps[:2], N: int64(idx), S: names[:2+r.IntN(2)]})
			} else {
				steps = append(steps, drv.Op{Op: "merge", Ps: ps[:2], N: int64(idx)})
			}
		case x < 89:
			steps = append(steps, drv.Op{Op: "c2delinst", Mode: pick(r, []string{"settle", "nowait"})})
		case x < 94:
			steps = append(steps, drv.Op{Op: "restart", Mode: pick(r, []string{"clean", "kill"})})
		default:
			steps = append(steps, drv.Op{Op: "c2gate", N: int64(r.Uint64N(1 << 40)), M: 12})
		}
	}
	steps = append(steps, drv.Op{Op: "c2check"})
	k := baseKnobs(r)
	return &drv.Scenario{Family: "gate-" + mode + "+history", Knobs: k, Steps: steps, Fixed: 2}
}

type c2Exec struct {
	w      *drv.World
	x      *KVExec
	snaps  map[int]*Snapshot // committed version -> snapshot at commit time
	mode   string
	token  string
	sacr   bool // sacrificial instance still exists
	gates  int
	// exception modes only: committed versions that accepted a write.  What they and their descendants hold is no
	// longer fixed, and DVID's in-memory copies of a descendant head do not follow writes to its ancestors
	written map[int]bool
	laterM int
}

func (e *c2Exec) base(v int, name string) string { return "/api/node/" + e.x.uuid(v) + "/" + name }

func (e *c2Exec) snapVersion(v int) (*Snapshot, error) {
	return TakeSnapshot(e.w, SnapOpts{OnlyVersions: map[string]bool{e.x.uuid(v): true}, SkipRepoInfo: true})
}

// dropInstance removes the entries of an instance from recorded snapshots (it was deleted on purpose).
func dropInstance(s *Snapshot, name string) {
	var order []string
	for _, k := range s.Order {
		if strings.Contains(k, "/"+name+"/") {
			delete(s.Entries, k)
			continue
		}
		order = append(order, k)
	}
	s.Order = order
}

func dropPOSTs(s *Snapshot) {
	var order []string
	for _, k := range s.Order {
		if strings.HasPrefix(k, "POST ") {
			delete(s.Entries, k)
			continue
		}
		order = append(order, k)
	}
	s.Order = order
}

// the gate probes are deliberately bare / malformed requests: a recovered panic on one of them is
// C20's business (hostile input), not a C02 verdict
func (C02) AllowsPanic500(sc *drv.Scenario) bool { return true }

func (e *c2Exec) recordCommitted(v int) error {
	s, err := e.snapVersion(v)
	if err != nil {
		return err
	}
	e.snaps[v] = s
	return nil
}

func (e *c2Exec) verify(after string) (*drv.Violation, error) {
	for _, v := range e.x.D.Sorted() {
		want := e.snaps[v]
		if want == nil {
			continue
		}
		exempt := false
		for a := range e.x.D.AncestorsOrSelf(v) {
			if a != v && e.written[a] {
				exempt = true // full-write / admin mode changed an ancestor: the version's inherited content is not fixed
			}
		}
		if exempt {
			e.w.Stats.Probe("version-below-a-version-written-in-exception-mode-not-compared")
			continue
		}
		got, err := e.snapVersion(v)
		if err != nil {
			return nil, err
		}
		if !e.sacr {
			dropInstance(got, "kvx")
		}
		if e.mode == "readonly" {
			// a read-only server refuses every POST, including the read-only query POSTs
			dropPOSTs(got)
			dropPOSTs(want)
		}
		if d := want.Diff(got); d != "" {
			return &drv.Violation{Prop: "C02", Oracle: "committed-snapshot-stable", Sig: "committed version changed (" + want.DiffClass(got) + ") after " + after,
				Detail: fmt.Sprintf("committed version %d(%s) read differently after %s:\n%s", v, e.x.uuid(v)[:4], after, d)}, nil
		}
	}
	e.w.Stats.Probe("committed-snapshots-compared")
	return nil, nil
}

func (c C02) Execute(sc *drv.Scenario, w *drv.World) (*drv.Violation, error) {
	w.Knobs.AllowSplit = true
	if _, err := w.Start(); err != nil {
		return nil, err
	}
	e := &c2Exec{w: w, x: NewKVExec(w), snaps: map[int]*Snapshot{}, sacr: true}
	for i, op := range sc.Steps {
		w.CurStep = i
		var v *drv.Violation
		var err error
		switch op.Op {
		case "c2setup":
			err = c.setup(e, op)
		case "c2mode":
			e.mode = op.T
			switch op.T {
			case "readonly", "fullwrite":
				w.Knobs.RWMode = op.T
				_, err = w.Restart("clean")
			case "admintoken":
				w.Knobs.AdminToken = "s3cret"
				e.token = "s3cret"
				_, err = w.Restart("clean")
			}
			if err == nil {
				v, err = e.verify("restart into mode " + op.T)
			}
		case "c2gate":
			v, err = c.gate(e, op)
		case "c2mut":
			v, err = c.laterMutation(e, op)
		case "c2delinst":
			if e.sacr {
				mode := "barrier"
				if op.Mode == "nowait" {
					mode = "return"
				}
				_, err = w.Batch([]proto.Req{{Client: "c1", Kind: "rpc", RPC: []string{"repo", e.x.uuid(0), "delete", "kvx"}}}, mode)
				e.sacr = false
				for _, s := range e.snaps {
					dropInstance(s, "kvx")
				}
				if err == nil {
					v, err = e.verify("deleting another instance")
				}
			}
		case "c2check":
			if err = w.Barrier(); err == nil {
				v, err = e.verify("the whole history")
			}
		case "commit":
			_, v, err = e.x.ApplyDAGOp(op)
			if err == nil && v == nil && e.x.D.Has(op.V) && e.x.D.Nodes[op.V].Locked {
				if err = w.Barrier(); err == nil {
					err = e.recordCommitted(op.V)
				}
			}
		case "restart":
			_, v, err = e.x.ApplyDAGOp(op)
			if err == nil && v == nil {
				v, err = e.verify("restart")
			}
		case "c2rput":
			if e.x.D.Has(op.V) {
				_, _, err = w.HTTP("POST", "/api/node/"+e.x.uuid(op.V)+"/kv/key/"+op.K, []byte(op.Val))
			}
		case "c2resolve":
			var ps []string
			for _, p := range op.Ps {
				if e.x.D.Has(p) {
					ps = append(ps, e.x.uuid(p))
				}
			}
			if len(ps) < 2 || e.x.D.Has(int(op.N)) {
				continue
			}
			var data []string
			for _, n := range op.S {
				if n != "kvx" || e.sacr {
					data = append(data, n)
				}
			}
			var st int
			var rb []byte
			st, rb, err = w.HTTP("POST", "/api/repo/"+ps[0]+"/resolve", jsonBody(map[string]interface{}{"data": data, "parents": ps, "note": "r"}))
			if err == nil {
				if st == 200 {
					e.x.D.Add(int(op.N), childUUID(rb), op.Ps, "", e.x.D.Nodes[op.Ps[0]].Repo)
					w.Stats.Probe("resolve-accepted")
				} else {
					w.Stats.Probe("resolve-refused")
				}
				if err = w.Barrier(); err == nil {
					if v, err = e.verify("resolve"); v != nil {
						v.Detail = fmt.Sprintf("POST /api/repo/%s/resolve data=%v parents=%v -> %d %s\n", ps[0], data, ps, st, trunc(rb)) + v.Detail
					}
				}
			}
		default:
			_, v, err = e.x.ApplyDAGOp(op)
			if err == nil && v == nil {
				v, err = e.verify(op.Op)
			}
		}
		if err != nil {
			return nil, err
		}
		if v != nil {
			v.Step = i
			return v, nil
		}
	}
	w.Discard()
	return nil, nil
}

func (C02) setup(e *c2Exec, op drv.Op) error {
	w := e.w
	r := drv.NewRNG(uint64(op.N))
	if _, _, err := e.x.ApplyDAGOp(drv.Op{Op: "repo", R: 0, N: 0}); err != nil {
		return err
	}
	root := e.x.uuid(0)
	mk := func(typ, name string, cfg map[string]interface{}) error {
		m := map[string]interface{}{"typename": typ, "dataname": name}
		for k, v := range cfg {
			m[k] = v
		}
		st, body, err := w.HTTP("POST", "/api/repo/"+root+"/instance", jsonBody(m))
		if err != nil {
			return err
		}
		if st != 200 {
			return fmt.Errorf("%w: cannot create %s instance: %d %s", drv.ErrInfra, typ, st, body)
		}
		return nil
	}
	for _, c := range Catalogue {
		if err := mk(c.Type, c.Name, c.Config); err != nil {
			return err
		}
	}
	if err := mk("keyvalue", "kvx", nil); err != nil {
		return err
	}
	if err := mk("labelsz", "lsz", nil); err != nil {
		return err
	}
	e.x.Insts["kv"] = NewKVModel(true)
	e.x.InstRepo["kv"], e.x.InstType["kv"] = 0, "other" // not checked through the kv model here
	w.HTTP("POST", "/api/node/"+root+"/ann/sync", []byte(`{"sync":"seg"}`))
	w.HTTP("POST", "/api/node/"+root+"/lsz/sync", []byte(`{"sync":"ann"}`))
	// content: a 32^3 label volume with supervoxels 1..8, then two rounds of every valid mutation
	vol := genLayout(r, [3]int{32, 32, 32}, []uint64{1, 2, 3, 4, 5, 6, 7, 8}, false)
	if st, body, err := w.HTTP("POST", "/api/node/"+root+"/seg/raw/0_1_2/32_32_32/0_0_0", u64sToBytes(vol)); err != nil || st != 200 {
		if err == nil {
			err = fmt.Errorf("%w: label ingest failed: %d %s", drv.ErrInfra, st, body)
		}
		return err
	}
	w.HTTP("POST", "/api/node/"+root+"/kvx/key/a", []byte("x"))
	for round := 0; round < 2; round++ {
		for _, c := range Catalogue {
			for _, rq := range c.Muts(r, "/api/node/"+root+"/"+c.Name) {
				if strings.Contains(rq.URL, "/roi") && rq.Method == "DELETE" && round == 1 {
					continue // keep an ROI in the committed version
				}
				if _, _, err := w.HTTP(rq.Method, rq.URL, rq.Body); err != nil {
					return err
				}
			}
		}
	}
	w.HTTP("POST", "/api/node/"+root+"/note", []byte(`{"note":"root note"}`))
	w.HTTP("POST", "/api/node/"+root+"/log", []byte(`{"log":["l1","l2"]}`))
	if _, _, err := e.x.ApplyDAGOp(drv.Op{Op: "commit", V: 0}); err != nil {
		return err
	}
	if err := w.Barrier(); err != nil {
		return err
	}
	return e.recordCommitted(0)
}

// gate sends mutating requests to a committed version.
func (c C02) gate(e *c2Exec, op drv.Op) (*drv.Violation, error) {
	w := e.w
	r := drv.NewRNG(uint64(op.N))
	var committed []int
	for _, v := range e.x.D.Sorted() {
		if e.snaps[v] != nil {
			committed = append(committed, v)
		}
	}
	if len(committed) == 0 {
		return nil, nil
	}
	cv := pick(r, committed)
	u := e.x.uuid(cv)
	type probe struct {
		rq       proto.Req
		readOnly bool   // a POST the type declares non-mutating
		allowed  bool   // branch/newversion: must stay allowed
		desc     string // class for signatures
	}
	var probes []probe
	frac := int(op.M)
	if frac < 1 {
		frac = 1
	}
	tq := ""
	if e.mode == "admintoken" && r.IntN(2) == 0 {
		tq = "admintoken=" + e.token
	}
	if e.mode == "admintoken" && tq == "" {
		// a request carrying the token precedes the token-less probes: the privilege must not stick
		if _, _, err := w.HTTP("GET", "/api/node/"+u+"/kv/keys?admintoken="+e.token, nil); err != nil {
			return nil, err
		}
		if _, _, err := w.HTTP("POST", "/api/node/"+u+"/log?admintoken="+e.token, []byte(`{"log":["by admin"]}`)); err != nil {
			return nil, err
		}
		for _, v2 := range committed {
			if err := e.recordCommitted(v2); err != nil {
				return nil, err
			}
		}
	}
	withQ := func(url string) string {
		if tq == "" {
			return url
		}
		if strings.Contains(url, "?") {
			return url + "&" + tq
		}
		return url + "?" + tq
	}
	for _, cat := range Catalogue {
		base := "/api/node/" + u + "/" + cat.Name
		ro := map[string]bool{}
		for _, k := range cat.ReadOnlyPOST {
			ro[k] = true
		}
		for _, kw := range EndpointKeywords(typeDirs[cat.Type]) {
			for _, m := range []string{"POST", "PUT", "DELETE"} {
				if r.IntN(frac) != 0 {
					continue
				}
				probes = append(probes, probe{rq: proto.Req{Client: "c0", Kind: "http", Method: m, URL: withQ(base + "/" + kw), Body: []byte(`{}`)},
					readOnly: m == "POST" && ro[kw], desc: cat.Type + " " + m + " " + kw})
			}
		}
		for _, rq := range cat.Muts(r, base) {
			if r.IntN(frac) != 0 && frac > 2 {
				continue
			}
			kw := strings.Split(strings.TrimPrefix(rq.URL, base+"/"), "/")[0]
			if i := strings.IndexByte(kw, '?'); i >= 0 {
				kw = kw[:i]
			}
			rq.URL = withQ(rq.URL)
			probes = append(probes, probe{rq: rq, desc: cat.Type + " " + rq.Method + " " + kw + " (valid payload)"})
		}
	}
	for _, kw := range EndpointKeywords("labelsz") {
		if r.IntN(frac) == 0 {
			probes = append(probes, probe{rq: post(withQ("/api/node/"+u+"/lsz/"+kw), []byte(`{}`)), desc: "labelsz POST " + kw})
		}
	}
	// node-level routes
	probes = append(probes,
		probe{rq: post(withQ("/api/node/"+u+"/note"), []byte(`{"note":"changed"}`)), desc: "node POST note"},
		probe{rq: post(withQ("/api/node/"+u+"/log"), []byte(`{"log":["changed"]}`)), desc: "node POST log"},
		probe{rq: post(withQ("/api/node/"+u+"/commit"), []byte(`{"note":"again"}`)), desc: "node POST commit"},
		probe{rq: post(withQ("/api/repo/"+u+"/instance"), []byte(`{"typename":"keyvalue","dataname":"sneaky"}`)), desc: "repo POST instance"})
	admin := tq != ""
	for _, p := range probes {
		res, err := w.Batch([]proto.Req{p.rq}, "barrier")
		if err != nil {
			return nil, err
		}
		if res.Wedged {
			return nil, w.ClassifyWedge("gate probe "+p.desc, res.Stacks)
		}
		st := res.Resps[0].Status
		e.gates++
		w.Stats.Probe("gate-probes")
		ok2xx := st >= 200 && st < 300
		switch {
		case e.mode == "fullwrite" || admin:
			// the documented exceptions: nothing to demand beyond "no crash"
			if ok2xx {
				w.Stats.Probe("exception-mode-write-accepted")
				if e.written == nil {
					e.written = map[int]bool{}
				}
				e.written[cv] = true
				// the committed version (and what its descendants inherit) legitimately changed:
				// refresh everything we compare against
				for _, v2 := range committed {
					if err := e.recordCommitted(v2); err != nil {
						return nil, err
					}
				}
				if !e.sacr {
					for _, s2 := range e.snaps {
						dropInstance(s2, "kvx")
					}
				}
			}
			continue
		case e.mode == "readonly":
			if ok2xx {
				return &drv.Violation{Prop: "C02", Oracle: "mutation-gate", Sig: "read-only server accepted " + p.desc,
					Detail: fmt.Sprintf("%s %s -> %d %s", p.rq.Method, p.rq.URL, st, trunc(res.Resps[0].Body))}, nil
			}
		default:
			if ok2xx && !p.readOnly {
				return &drv.Violation{Prop: "C02", Oracle: "mutation-gate", Sig: "committed version accepted " + p.desc,
					Detail: fmt.Sprintf("%s %s -> %d %s (version %s is committed)", p.rq.Method, p.rq.URL, st, trunc(res.Resps[0].Body), u[:4])}, nil
			}
			if p.readOnly && !ok2xx && st != 400 {
				w.Stats.Probe("readonly-post-not-served")
			}
		}
	}
	if v, err := e.verify("mutating requests to the committed version (mode " + e.mode + ")"); v != nil || err != nil {
		return v, err
	}
	return nil, nil
}

// laterMutation applies valid mutations of a random type at an open descendant/sibling.
func (c C02) laterMutation(e *c2Exec, op drv.Op) (*drv.Violation, error) {
	if !e.x.D.Has(op.V) || e.x.D.Nodes[op.V].Locked {
		return nil, nil
	}
	r := drv.NewRNG(uint64(op.N))
	cat := Catalogue[r.IntN(len(Catalogue))]
	muts := cat.Muts(r, e.base(op.V, cat.Name))
	rq := muts[r.IntN(len(muts))]
	if _, _, err := e.w.HTTP(rq.Method, rq.URL, rq.Body); err != nil {
		return nil, err
	}
	e.laterM++
	e.w.Stats.Probe("later-mutations")
	kw := strings.Split(strings.TrimPrefix(rq.URL, e.base(op.V, cat.Name)+"/"), "/")[0]
	if i := strings.IndexByte(kw, '?'); i >= 0 {
		kw = kw[:i]
	}
	return e.verify(cat.Type + " " + rq.Method + " " + kw + " in another version")
}

func (C02) NonTrivial(sc *drv.Scenario, st *drv.RunStats) bool {
	return st.Probes["gate-probes"] > 0 && (st.Probes["later-mutations"] > 0 || strings.Contains(sc.Family, "readonly"))
}
