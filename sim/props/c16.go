package props

import (
	"encoding/json"
	"fmt"
	"math/rand/v2"
	"reflect"
	"sort"
	"strconv"
	"strings"
	"time"

	"verif/sim/drv"
	"verif/sim/proto"
)

// C16 — neuron annotations: in-memory head equals the store; updates merge fields.
type C16 struct{ drv.CheckBase }

func init() { drv.Register(&C16{}) }

func (C16) ID() string    { return "C16" }
func (C16) Level() string { return "exploration" }
func (C16) Rule() string {
	return "each run = one seeded history on a neuronjson instance: POST key (plain partial update, replace=true, conditional fields), POST keyvalues batches, DELETE key, schema posts, with JSON values of every kind " +
		"(strings, numbers, arrays, nested objects, nulls, repeated identical values), body ids of mixed digit length, two users, and the fake clock advanced >=2 s between operations so that any re-stamp shows at the format's one-second resolution; " +
		"commits and new versions move the branch head; clean and kill restarts. Oracles: (i) relational - at pair points the head is committed and a child is created, so the SAME data is read through the store path (committed parent) and the " +
		"in-memory path (new head): key (show=all), keys, all, fields, fields?counts, keyrange, keyrangevalues, keyvalues, query in every form (equality, list, regex, exists/0|1, conjunction, disjunction), schema must agree " +
		"(lists whose order the API leaves open are compared as sets), and again after a restart; (ii) model of the statement's merge rules after every POST/DELETE on the head: unmentioned fields and their stamps kept, null removes the value, " +
		"a field's _user/_time change iff its value changes (to the poster and the simulator's fake now). Concurrent batches: 2-3 clients update or delete ONE annotation at the same time (the result must be what some sequential order of the acknowledged requests gives - reported as C11 - and the two read paths are compared right after), and a range read of the head runs while other clients delete its largest ids; every third run makes DVID's own mutex acquisitions scheduling points too. non-trivial = at least one null-deletion or replace and one pair comparison; distinct = distinct (steps, schedule, faults) hash"
}
func (C16) Assumptions() []string { return commonAssumptions }
func (C16) Budget(tier string) (int, time.Duration) {
	return budget(tier, 300, 20000, 90*time.Second, 25*time.Minute)
}

var njIDs = []int{7, 9, 10, 11, 100, 1000, 10000}
var njFields = []string{"type", "status", "name", "group", "pos", "meta"}

func njValue(r *rand.Rand, f string) interface{} {
	switch f {
	case "type":
		return pick(r, []string{"KC", "PN", "MBON"})
	case "status":
		return pick(r, []string{"traced", "anchor", ""})
	case "name":
		return fmt.Sprintf("n%d", r.IntN(4))
	case "group":
		return r.IntN(5)
	case "pos":
		return []int{r.IntN(3), r.IntN(3), r.IntN(3)}
	default:
		return map[string]interface{}{"a": r.IntN(3), "b": pick(r, []string{"x", "y"})}
	}
}

func (C16) Generate(r *rand.Rand, tier string, idx int) *drv.Scenario {
	steps := []drv.Op{{Op: "njsetup"}}
	n := 10 + r.IntN(24)
	for i := 0; i < n; i++ {
		switch x := r.IntN(100); {
		case x < 50:
			id := pick(r, njIDs)
			body := map[string]interface{}{"bodyid": id}
			nf := 1 + r.IntN(3)
			for k := 0; k < nf; k++ {
				f := pick(r, njFields)
				if r.IntN(6) == 0 {
					body[f] = nil
				} else {
					body[f] = njValue(r, f)
				}
			}
			op := drv.Op{Op: "njpost", N: int64(id), U: pick(r, []string{"alice", "bob"}), J: jsonBody(body)}
			switch r.IntN(6) {
			case 0:
				op.Mode = "replace"
			case 1:
				op.Mode = "conditional"
				op.S = []string{pick(r, njFields)}
			}
			steps = append(steps, op)
		case x < 53:
			steps = append(steps, drv.Op{Op: "njdel", N: int64(pick(r, njIDs))})
		case x < 56:
			// a field set and removed again by the same user within one second, then both read paths at once
			id := pick(r, njIDs)
			f := pick(r, njFields)
			u := pick(r, []string{"alice", "bob"})
			steps = append(steps,
				drv.Op{Op: "njpost", N: int64(id), U: u, K: "nosleep", J: jsonBody(map[string]interface{}{"bodyid": id, f: njValue(r, f)})},
				drv.Op{Op: "njpost", N: int64(id), U: u, K: "nosleep", J: jsonBody(map[string]interface{}{"bodyid": id, f: nil})},
				drv.Op{Op: "njpair"})
		case x < 58 && r.IntN(3) == 0:
			// a range read of the head while other clients delete its largest ids
			steps = append(steps, drv.Op{Op: "njparrange", N: int64(1 + r.IntN(2))}, drv.Op{Op: "njpair"})
		case x < 58:
			// 2-3 clients update ONE annotation at the same time; then the two read paths are compared at once
			id := pick(r, njIDs)
			var sub []drv.Op
			for c := 0; c < 2+r.IntN(2); c++ {
				cl := fmt.Sprintf("c%d", c+1)
				if r.IntN(5) == 0 {
					sub = append(sub, drv.Op{Op: "njdel", C: cl, N: int64(id)})
					continue
				}
				body := map[string]interface{}{"bodyid": id}
				for k := 0; k < 1+r.IntN(2); k++ {
					f := pick(r, njFields)
					body[f] = njValue(r, f)
				}
				o := drv.Op{Op: "njpost", C: cl, N: int64(id), U: pick(r, []string{"alice", "bob"}), J: jsonBody(body)}
				if r.IntN(3) == 0 {
					o.Mode = "replace"
				}
				sub = append(sub, o)
			}
			steps = append(steps, drv.Op{Op: "njpar", N: int64(id), Sub: sub}, drv.Op{Op: "njpair"})
		case x < 64:
			id1, id2 := pick(r, njIDs), pick(r, njIDs)
			steps = append(steps, drv.Op{Op: "njkvs", U: pick(r, []string{"alice", "bob"}), L: []uint64{uint64(id1), uint64(id2)},
				S: []string{string(jsonBody(map[string]interface{}{"bodyid": id1, "type": njValue(r, "type")})), string(jsonBody(map[string]interface{}{"bodyid": id2, "name": njValue(r, "name")}))}})
		case x < 68:
			steps = append(steps, drv.Op{Op: "njschema", T: pick(r, []string{"schema", "schema_batch"}), Val: fmt.Sprintf(`{"v":%d}`, r.IntN(100))})
		case x < 82:
			steps = append(steps, drv.Op{Op: "njpair"})
		case x < 88:
			steps = append(steps, drv.Op{Op: "njrestart", Mode: pick(r, []string{"clean", "kill"})})
		default:
			steps = append(steps, drv.Op{Op: "njsleep", N: int64(2000 + r.IntN(4000))})
		}
	}
	steps = append(steps, drv.Op{Op: "njpair"}, drv.Op{Op: "njrestart", Mode: "kill"})
	return lockSwarm(&drv.Scenario{Family: "neuronjson", Knobs: baseKnobs(r), Steps: steps, Fixed: 1}, idx)
}

type njExec struct {
	w      *drv.World
	head   int // version index of the open master head
	uuids  []string
	model  map[int]map[string]interface{} // id -> full annotation incl. stamps (head state)
	pairs  [][2]int                       // (committed parent, child head at that time) holding identical data
	pairOK map[int]bool
	rounds int
	dirty  bool // the head was modified since the last pair point
}

func (e *njExec) base(v int) string { return "/api/node/" + e.uuids[v] + "/nj" }

func canon(v interface{}) string {
	b, _ := json.Marshal(v)
	return string(b)
}

func parseJSON(b []byte) (interface{}, bool) {
	var v interface{}
	dec := json.NewDecoder(strings.NewReader(string(b)))
	dec.UseNumber()
	if err := dec.Decode(&v); err != nil {
		return nil, false
	}
	return v, true
}

func fakeNow(w *drv.World) string {
	t := time.Date(2000, 1, 1, 0, 0, 0, 0, time.UTC).Add(time.Duration(w.NowMS()) * time.Millisecond)
	return t.Format(time.RFC3339)
}

func (c C16) Execute(sc *drv.Scenario, w *drv.World) (*drv.Violation, error) {
	if _, err := w.Start(); err != nil {
		return nil, err
	}
	e := &njExec{w: w, model: map[int]map[string]interface{}{}, pairOK: map[int]bool{}}
	for i, op := range sc.Steps {
		w.CurStep = i
		var v *drv.Violation
		var err error
		switch op.Op {
		case "njsetup":
			u := VUUID(0)
			if st, body, e2 := w.HTTP("POST", "/api/repos", jsonBody(map[string]interface{}{"alias": "nj", "description": "sim", "root": u})); e2 != nil || st != 200 {
				if e2 == nil {
					e2 = fmt.Errorf("%w: repo: %d %s", drv.ErrInfra, st, body)
				}
				return nil, e2
			}
			if st, body, e2 := w.HTTP("POST", "/api/repo/"+u+"/instance", jsonBody(map[string]interface{}{"typename": "neuronjson", "dataname": "nj"})); e2 != nil || st != 200 {
				if e2 == nil {
					e2 = fmt.Errorf("%w: instance: %d %s", drv.ErrInfra, st, body)
				}
				return nil, e2
			}
			e.uuids = []string{u}
			e.head = 0
		case "njsleep":
			err = w.Sleep(op.N)
		case "njpost":
			e.dirty = true
			v, err = c.post(e, op)
		case "njdel":
			e.dirty = true
			v, err = c.del(e, op)
		case "njkvs":
			e.dirty = true
			v, err = c.kvs(e, op)
		case "njschema":
			e.dirty = true
			_, _, err = w.HTTP("POST", e.base(e.head)+"/"+op.T, []byte(op.Val))
		case "njpar":
			e.dirty = true
			v, err = c.par(e, op)
		case "njparrange":
			e.dirty = true
			v, err = c.parRange(e, op)
		case "njpair":
			v, err = c.pair(e)
		case "njrestart":
			var ftBefore []byte
			var ftSt int
			if ftSt, ftBefore, err = w.HTTP("GET", e.base(e.head)+"/fieldtimes", nil); err != nil {
				return nil, err
			}
			if _, err = w.Restart(op.Mode); err == nil {
				st2, ftAfter, e2 := w.HTTP("GET", e.base(e.head)+"/fieldtimes", nil)
				if e2 != nil {
					return nil, e2
				}
				if bs, as := njNormObj(proto.Resp{Status: ftSt, Body: ftBefore}), njNormObj(proto.Resp{Status: st2, Body: ftAfter}); bs != as {
					return &drv.Violation{Prop: "C16", Oracle: "head-vs-restart", Sig: "fieldtimes of the head differ after a restart", Step: i,
						Detail: fmt.Sprintf("GET fieldtimes before the restart (%s): %s\nafter: %s", op.Mode, bs, as)}, nil
				}
				w.Stats.Probe("fieldtimes-compared-across-restart")
				v, err = c.comparePairs(e, "after restart ("+op.Mode+")")
				if v == nil && err == nil {
					v, err = c.checkModel(e, "after restart")
				}
			}
		}
		if err != nil {
			return nil, err
		}
		if v != nil {
			v.Step = i
			return v, nil
		}
		if op.Op != "njsleep" && op.Op != "njsetup" && op.K != "nosleep" && (i*7+len(sc.Steps))%5 != 0 {
			// the clock usually moves on between operations so that re-stamping is visible; now and then
			// two operations fall into the same second (equal stamps)
			if err := w.Sleep(2000); err != nil {
				return nil, err
			}
		}
	}
	w.Discard()
	return nil, nil
}

// njOpen marks a stamp the statement leaves open (null posted for a field without a value).
type njOpen struct{}

func njv(oracle, sig, detail string) *drv.Violation {
	return &drv.Violation{Prop: "C16", Oracle: oracle, Sig: sig, Detail: detail}
}

// applyRules is the statement's merge semantics on the model.
func applyRules(old map[string]interface{}, posted map[string]interface{}, user, now string, replace bool, conditionals []string) map[string]interface{} {
	out := map[string]interface{}{}
	prot := map[string]bool{}
	for _, f := range conditionals {
		prot[f] = true
	}
	if !replace {
		for k, v := range old {
			out[k] = v
		}
	} else if old != nil {
		// replace: fields not mentioned disappear; mentioned unchanged fields keep their stamps
		for f := range posted {
			if v, ok := old[f+"_user"]; ok {
				out[f+"_user"] = v
			}
			if v, ok := old[f+"_time"]; ok {
				out[f+"_time"] = v
			}
		}
	}
	for f, v := range posted {
		if strings.HasSuffix(f, "_user") || strings.HasSuffix(f, "_time") {
			continue
		}
		if v == nil {
			// a null removes the value; removing an existing value is a change, so the
			// stamps then name the remover.  For a field that had no value the statement
			// leaves the stamps open: marked, and adopted from the server in checkID.
			_, had := old[f]
			delete(out, f)
			if had {
				out[f+"_user"] = user
				out[f+"_time"] = now
			} else {
				out[f+"_user"] = njOpen{}
				out[f+"_time"] = njOpen{}
			}
			continue
		}
		ov, had := old[f]
		if had && prot[f] && !replace {
			out[f] = ov // conditional field already set: not overwritten
			continue
		}
		out[f] = v
		if f == "bodyid" {
			continue
		}
		if !had || canon(ov) != canon(v) {
			out[f+"_user"] = user
			out[f+"_time"] = now
		}
	}
	return out
}

func (c C16) post(e *njExec, op drv.Op) (*drv.Violation, error) {
	id := int(op.N)
	url := fmt.Sprintf("%s/key/%d?u=%s", e.base(e.head), id, op.U)
	if op.Mode == "replace" {
		url += "&replace=true"
	}
	if op.Mode == "conditional" {
		url += "&conditionals=" + strings.Join(op.S, ",")
	}
	now := fakeNow(e.w)
	st, body, err := e.w.HTTP("POST", url, op.J)
	if err != nil {
		return nil, err
	}
	if st != 200 {
		e.w.Stats.Probe("njpost-refused")
		_ = body
		return nil, nil
	}
	postedI, _ := parseJSON(op.J)
	posted := postedI.(map[string]interface{})
	nulls := false
	for _, v := range posted {
		if v == nil {
			nulls = true
		}
	}
	if nulls {
		e.w.Stats.Probe("null-deletion")
	}
	if op.Mode != "" {
		e.w.Stats.Probe("post-" + op.Mode)
	}
	var cond []string
	if op.Mode == "conditional" {
		cond = op.S
	}
	e.model[id] = applyRules(e.model[id], posted, op.U, now, op.Mode == "replace", cond)
	return c.checkID(e, id, "after POST "+url+" "+string(op.J))
}

func (c C16) kvs(e *njExec, op drv.Op) (*drv.Violation, error) {
	var body []byte
	for i, id := range op.L {
		body = append(body, protoKV(fmt.Sprint(id), []byte(op.S[i]))...)
	}
	now := fakeNow(e.w)
	st, _, err := e.w.HTTP("POST", e.base(e.head)+"/keyvalues?u="+op.U, body)
	if err != nil {
		return nil, err
	}
	if st != 200 {
		e.w.Stats.Probe("njkvs-refused")
		return nil, nil
	}
	for i, id := range op.L {
		pi, _ := parseJSON([]byte(op.S[i]))
		e.model[int(id)] = applyRules(e.model[int(id)], pi.(map[string]interface{}), op.U, now, false, nil)
	}
	for _, id := range op.L {
		if v, err := c.checkID(e, int(id), "after POST keyvalues"); v != nil || err != nil {
			return v, err
		}
	}
	return nil, nil
}

func (c C16) del(e *njExec, op drv.Op) (*drv.Violation, error) {
	st, _, err := e.w.HTTP("DELETE", fmt.Sprintf("%s/key/%d", e.base(e.head), op.N), nil)
	if err != nil {
		return nil, err
	}
	if st == 200 {
		delete(e.model, int(op.N))
		e.w.Stats.Probe("nj-delete")
	}
	return c.checkID(e, int(op.N), "after DELETE")
}

// par: concurrent updates of one annotation.  Every acknowledged request must have taken effect as a whole:
// the annotation afterwards is what SOME sequential order of the acknowledged requests produces (C11).
func (c C16) par(e *njExec, op drv.Op) (*drv.Violation, error) {
	id := int(op.N)
	now := fakeNow(e.w)
	var reqs []proto.Req
	for _, s := range op.Sub {
		rq := proto.Req{Client: s.C, Kind: "http"}
		if s.Op == "njdel" {
			rq.Method, rq.URL = "DELETE", fmt.Sprintf("%s/key/%d", e.base(e.head), id)
		} else {
			rq.Method, rq.URL, rq.Body = "POST", fmt.Sprintf("%s/key/%d?u=%s", e.base(e.head), id, s.U), s.J
			if s.Mode == "replace" {
				rq.URL += "&replace=true"
			}
		}
		reqs = append(reqs, rq)
	}
	res, err := e.w.Batch(reqs, "barrier")
	if err != nil {
		return nil, err
	}
	if res.Wedged {
		return nil, e.w.ClassifyWedge("concurrent neuron-annotation updates of one key\n"+descReqs(reqs), res.Stacks)
	}
	var acked []drv.Op
	for j, s := range op.Sub {
		if res.Resps[j].Status == 200 {
			acked = append(acked, s)
		}
	}
	e.w.Stats.Probe("nj-concurrent-batch")
	if len(acked) == 0 {
		return c.checkID(e, id, "after a refused concurrent batch")
	}
	saved, had := e.model[id]
	apply := func(order []int) (map[string]interface{}, bool) {
		cur, exists := saved, had
		for _, j := range order {
			s := acked[j]
			if s.Op == "njdel" {
				cur, exists = nil, false
				continue
			}
			postedI, _ := parseJSON(s.J)
			cur = applyRules(cur, postedI.(map[string]interface{}), s.U, now, s.Mode == "replace", nil)
			exists = true
		}
		return cur, exists
	}
	var orders [][]int
	var perm func(pre []int, used int)
	perm = func(pre []int, used int) {
		if len(pre) == len(acked) {
			orders = append(orders, append([]int(nil), pre...))
			return
		}
		for j := range acked {
			if used&(1<<j) == 0 {
				perm(append(pre, j), used|1<<j)
			}
		}
	}
	perm(nil, 0)
	var first *drv.Violation
	var tried strings.Builder
	for _, o := range orders {
		cand, exists := apply(o)
		if exists {
			e.model[id] = cand
		} else {
			delete(e.model, id)
		}
		v, err := c.checkID(e, id, "after a concurrent batch")
		if err != nil {
			return nil, err
		}
		if v == nil {
			return nil, nil
		}
		if first == nil {
			first = v
		}
		fmt.Fprintf(&tried, "order %v: %s | %s\n", o, v.Sig, strings.ReplaceAll(v.Detail, "\n", " ; "))
	}
	if had {
		e.model[id] = saved
	} else {
		delete(e.model, id)
	}
	return &drv.Violation{Prop: "C11", Oracle: "nj-concurrent-updates", Sig: "concurrent neuron-annotation updates: the result is no sequential order of the acknowledged requests",
		Detail: "batch:\n" + descReqs(reqs) + "\nstate before: " + canon(saved) + "\nfirst candidate order fails with: " + first.Sig + "\n" + first.Detail + "\nall orders of the acknowledged requests:\n" + tried.String()}, nil
}

// parRange: a range read served from the in-memory head while other clients delete the largest ids.
func (c C16) parRange(e *njExec, op drv.Op) (*drv.Violation, error) {
	var ids []int
	for id := range e.model {
		ids = append(ids, id)
	}
	sort.Ints(ids)
	if len(ids) < 2 {
		return nil, nil
	}
	nd := int(op.N)
	if nd > len(ids)-1 {
		nd = len(ids) - 1
	}
	victims := ids[len(ids)-nd:]
	reqs := []proto.Req{{Client: "c1", Kind: "http", Method: "GET", URL: e.base(e.head) + "/keyrangevalues/0/99999999?json=true"}}
	for j, id := range victims {
		reqs = append(reqs, proto.Req{Client: fmt.Sprintf("c%d", j+2), Kind: "http", Method: "DELETE", URL: fmt.Sprintf("%s/key/%d", e.base(e.head), id)})
	}
	res, err := e.w.Batch(reqs, "barrier")
	if err != nil {
		return nil, err
	}
	if res.Wedged {
		return nil, e.w.ClassifyWedge("range read concurrent with deletes\n"+descReqs(reqs), res.Stacks)
	}
	e.w.Stats.Probe("nj-range-vs-delete-batch")
	for j, id := range victims {
		if res.Resps[j+1].Status == 200 {
			delete(e.model, id)
		}
		if v, err := c.checkID(e, id, "after a delete concurrent with a range read"); v != nil || err != nil {
			return v, err
		}
	}
	return nil, nil
}

// checkID compares GET key/<id>?show=all on the head with the merge-rule model.
func (c C16) checkID(e *njExec, id int, when string) (*drv.Violation, error) {
	st, body, err := e.w.HTTP("GET", fmt.Sprintf("%s/key/%d?show=all", e.base(e.head), id), nil)
	if err != nil {
		return nil, err
	}
	want, exists := e.model[id]
	if !exists {
		if st == 200 {
			return njv("merge-rules", "deleted annotation still readable", fmt.Sprintf("id %d %s: %d %s", id, when, st, trunc(body))), nil
		}
		return nil, nil
	}
	if st != 200 {
		return njv("merge-rules", "stored annotation not readable", fmt.Sprintf("id %d %s: %d %s", id, when, st, trunc(body))), nil
	}
	gotI, ok := parseJSON(body)
	got, ok2 := gotI.(map[string]interface{})
	if !ok || !ok2 {
		return njv("merge-rules", "annotation is not a JSON object", trunc(body)), nil
	}
	for k, v := range want {
		if _, open := v.(njOpen); open {
			if g, ok := got[k]; ok {
				want[k] = g
			} else {
				delete(want, k)
			}
		}
	}
	wantI, _ := parseJSON([]byte(canon(want)))
	wantM := wantI.(map[string]interface{})
	// compare field by field for a precise class
	keys := map[string]bool{}
	for k := range got {
		keys[k] = true
	}
	for k := range wantM {
		keys[k] = true
	}
	var ks []string
	for k := range keys {
		ks = append(ks, k)
	}
	sort.Strings(ks)
	for _, k := range ks {
		g, gok := got[k]
		wv, wok := wantM[k]
		if gok && wok && reflect.DeepEqual(g, wv) {
			continue
		}
		class := "field value"
		switch {
		case strings.HasSuffix(k, "_time"):
			class = "time stamp"
		case strings.HasSuffix(k, "_user"):
			class = "user stamp"
		}
		what := "differs"
		if !gok {
			what = "missing"
		} else if !wok {
			what = "unexpected"
		}
		return njv("merge-rules", class+" "+what+" after update", fmt.Sprintf("id %d %s\n field %q: server %v, merge rules give %v\n server: %s\n model:  %s", id, when, k, g, wv, canon(got), canon(wantM))), nil
	}
	e.w.Stats.Probe("merge-rule-checks")
	return nil, nil
}

func (c C16) checkModel(e *njExec, when string) (*drv.Violation, error) {
	for _, id := range njIDs {
		if v, err := c.checkID(e, id, when); v != nil || err != nil {
			return v, err
		}
	}
	return nil, nil
}

// pair: commit the head and create its child: same data, two read paths.
func (c C16) pair(e *njExec) (*drv.Violation, error) {
	w := e.w
	parent := e.head
	if st, _, err := w.HTTP("POST", "/api/node/"+e.uuids[parent]+"/commit", []byte(`{"note":"pair"}`)); err != nil || st != 200 {
		return nil, err
	}
	idx := len(e.uuids)
	u := VUUID(idx)
	st, _, err := w.HTTP("POST", "/api/node/"+e.uuids[parent]+"/newversion", jsonBody(map[string]interface{}{"uuid": u}))
	if err != nil {
		return nil, err
	}
	if st != 200 {
		return nil, fmt.Errorf("%w: newversion refused", drv.ErrInfra)
	}
	e.uuids = append(e.uuids, u)
	e.head = idx
	e.dirty = false
	e.pairs = [][2]int{{parent, idx}} // only the latest pair holds identical data for sure... older parents vs themselves are compared via snapshots in C02/C03
	e.w.Stats.Probe("pair-comparisons")
	return c.comparePairs(e, "store path (committed parent) vs in-memory path (new head)")
}

type njRead struct {
	name string
	rq   func(base string) proto.Req
	norm func(r proto.Resp) string
}

func njNormSet(r proto.Resp) string {
	if r.Status != 200 {
		return fmt.Sprintf("status %d", r.Status)
	}
	v, ok := parseJSON(r.Body)
	if !ok {
		return "unparseable: " + trunc(r.Body)
	}
	if l, ok := v.([]interface{}); ok {
		var s []string
		for _, x := range l {
			s = append(s, canon(x))
		}
		sort.Strings(s)
		return strings.Join(s, "\n")
	}
	return canon(v)
}

func njNormKeysNumeric(r proto.Resp) string {
	if r.Status != 200 {
		return fmt.Sprintf("status %d", r.Status)
	}
	var ks []string
	if json.Unmarshal(r.Body, &ks) != nil {
		return "unparseable: " + trunc(r.Body)
	}
	var ids []int
	for _, k := range ks {
		n, _ := strconv.Atoi(k)
		ids = append(ids, n)
	}
	sort.Ints(ids)
	return fmt.Sprint(ids)
}

func njNormObj(r proto.Resp) string {
	if r.Status != 200 {
		return fmt.Sprintf("status %d", r.Status)
	}
	v, ok := parseJSON(r.Body)
	if !ok {
		return "unparseable: " + trunc(r.Body)
	}
	return canon(v)
}

func njReads() []njRead {
	var out []njRead
	get := func(name, path string, body []byte, norm func(proto.Resp) string) {
		out = append(out, njRead{name, func(base string) proto.Req { return getb(base+path, body) }, norm})
	}
	for _, id := range append(append([]int{}, njIDs...), 5) {
		get("key", fmt.Sprintf("/key/%d?show=all", id), nil, njNormObj)
	}
	get("keys", "/keys", nil, njNormKeysNumeric)
	get("all", "/all?show=all", nil, njNormSet)
	get("all?fields", "/all?fields=type,name", nil, njNormSet)
	get("fields", "/fields", nil, njNormSet)
	get("fields?counts", "/fields?counts=true", nil, njNormObj)
	get("keyrange", "/keyrange/9/100", nil, njNormKeysNumeric)
	get("keyrange", "/keyrange/0/99999", nil, njNormKeysNumeric)
	get("keyrange", "/keyrange/10/10", nil, njNormKeysNumeric)
	get("keyrangevalues", "/keyrangevalues/7/1000?json=true&show=all", nil, njNormObj)
	get("keyvalues", "/keyvalues?json=true&show=all", []byte(`["7","9","10","11","100","1000","10000","5"]`), njNormObj)
	for _, q := range []string{`{"type":"KC"}`, `{"type":["KC","PN"]}`, `{"name":"re/n[01]"}`, `{"status":"exists/0"}`, `{"status":"exists/1"}`,
		`{"group":3}`, `{"type":"MBON","status":"traced"}`, `[{"type":"KC"},{"name":"n2"}]`, `{"bodyid":10}`, `{"group":[1,2,3]}`} {
		get("query", "/query?show=all", []byte(q), njNormSet)
		get("query?onlyid", "/query?onlyid=true", []byte(q), njNormSet)
	}
	get("schema", "/schema", nil, njNormObj)
	get("schema_batch", "/schema_batch", nil, njNormObj)
	return out
}

func (c C16) comparePairs(e *njExec, when string) (*drv.Violation, error) {
	reads := njReads()
	for _, p := range e.pairs {
		var ra, rb []proto.Req
		for _, r := range reads {
			ra = append(ra, r.rq(e.base(p[0])))
			rb = append(rb, r.rq(e.base(p[1])))
		}
		// the child must still be the unmodified head for the comparison to be meaningful
		if p[1] != e.head || e.dirty {
			continue
		}
		resA, err := e.w.Seq(ra)
		if err != nil {
			return nil, err
		}
		resB, err := e.w.Seq(rb)
		if err != nil {
			return nil, err
		}
		for i, r := range reads {
			a, b := r.norm(resA[i]), r.norm(resB[i])
			if a != b {
				return njv("head-vs-store", r.name+" differs between the in-memory head and the store ("+whenClass(when)+")",
					fmt.Sprintf("%s\nrequest %s %s\n committed parent %s (store path): %s\n open head %s (in-memory path): %s", when, ra[i].URL[len(e.base(p[0])):], string(ra[i].Body),
						e.uuids[p[0]][:4], clip(a, 700), e.uuids[p[1]][:4], clip(b, 700))), nil
			}
		}
	}
	return nil, nil
}

func whenClass(s string) string {
	if strings.HasPrefix(s, "after restart") {
		return "after restart"
	}
	return "same lifetime"
}

func (C16) NonTrivial(sc *drv.Scenario, st *drv.RunStats) bool {
	return st.Probes["pair-comparisons"] > 0 && st.Probes["null-deletion"]+st.Probes["post-replace"] > 0
}
