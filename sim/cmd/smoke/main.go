package main

import (
	"fmt"
	"os"
	"time"

	"verif/sim/drv"
	"verif/sim/proto"
)

func must(r *proto.Result, err error) *proto.Result {
	if err != nil {
		fmt.Println("ERR", err)
		os.Exit(2)
	}
	return r
}

func main() {
	dir := "/dev/shm/verif-smoke"
	os.RemoveAll(dir)
	cfg := proto.Config{Dir: dir, ShutdownDelay: 1, EventDetail: 2, Sched: proto.Sched{Seed: 1}}
	t0 := time.Now()
	c, res, err := drv.StartChild(cfg, drv.ChildOpts{MapSeed: 7, UUIDSeed: 1, Tag: "l1"})
	must(res, err)
	fmt.Println("boot", time.Since(t0), res.OK, res.Err, len(res.Events), res.Writes)
	http := func(client, method, url, body string) proto.Req {
		return proto.Req{Client: client, Kind: "http", Method: method, URL: url, Body: []byte(body)}
	}
	r := must(c.Do(proto.Cmd{Op: "batch", Reqs: []proto.Req{http("c1", "POST", "/api/repos", `{"alias":"r","description":"d","root":"aaaa0000000000000000000000000001"}`)}, Mode: "barrier"}))
	fmt.Println(r.Resps[0].Status, string(r.Resps[0].Body), r.Writes)
	r = must(c.Do(proto.Cmd{Op: "batch", Reqs: []proto.Req{http("c1", "POST", "/api/repo/aaaa/instance", `{"typename":"keyvalue","dataname":"kv"}`)}, Mode: "barrier"}))
	fmt.Println(r.Resps[0].Status, string(r.Resps[0].Body), r.Writes)
	t1 := time.Now()
	r = must(c.Do(proto.Cmd{Op: "batch", Reqs: []proto.Req{
		http("c1", "POST", "/api/node/aaaa/kv/key/k1", `v1`),
		http("c2", "POST", "/api/node/aaaa/kv/key/k1", `v2`),
		http("c3", "GET", "/api/node/aaaa/kv/key/k1", ``),
	}, Mode: "barrier", Sched: &proto.Sched{Seed: 42}}))
	fmt.Println("batch", time.Since(t1))
	for _, x := range r.Resps {
		fmt.Println(x.Client, x.Status, string(x.Body), x.Invoke, x.Return)
	}
	for _, e := range r.Events {
		fmt.Println("  ", e)
	}
	fmt.Println(r.Choices, r.Widths)
	r = must(c.Do(proto.Cmd{Op: "sleep", MS: 5000}))
	fmt.Println("now", r.NowMS)
	t2 := time.Now()
	r = must(c.Do(proto.Cmd{Op: "shutdown"}))
	fmt.Println("shutdown", time.Since(t2), r.OK, r.NowMS, c.ExitCode)
	cfg.Sched.Seed = 2
	t0 = time.Now()
	c, res, err = drv.StartChild(cfg, drv.ChildOpts{MapSeed: 7, UUIDSeed: 2, Tag: "l2"})
	must(res, err)
	fmt.Println("boot2", time.Since(t0), res.OK, res.Err, res.Writes)
	r = must(c.Do(proto.Cmd{Op: "batch", Reqs: []proto.Req{http("c3", "GET", "/api/node/aaaa/kv/key/k1", ``)}}))
	fmt.Println(r.Resps[0].Status, string(r.Resps[0].Body))
	r = must(c.Do(proto.Cmd{Op: "kill"}))
	fmt.Println("kill", r.OK, c.ExitCode)
}
