// simdrv: the simulator parent.  Usage:
//   simdrv <property> quick|thorough
//   simdrv <property> --replay <file>
//   simdrv selftest-determinism
package main

import (
	"bufio"
	"fmt"
	"os"
	"strconv"
	"strings"

	"verif/sim/drv"
	_ "verif/sim/props"
)

func main() {
	if len(os.Args) < 3 {
		fmt.Fprintf(os.Stderr, "usage: simdrv <property> quick|thorough|--replay <file>\nregistered: %v\n", drv.Registered())
		os.Exit(2)
	}
	id := os.Args[1]
	if id == "selftest-determinism" {
		ids := strings.Split(os.Args[2], ",")
		sc, rep := 3, 30
		if len(os.Args) > 3 {
			sc, _ = strconv.Atoi(os.Args[3])
		}
		if len(os.Args) > 4 {
			rep, _ = strconv.Atoi(os.Args[4])
		}
		os.Exit(drv.SelfTestDeterminism(ids, sc, rep, 7))
	}
	if id == "shell" {
		shell(os.Args[2])
		return
	}
	if os.Args[2] == "--replay" {
		if len(os.Args) < 4 {
			os.Exit(2)
		}
		os.Exit(drv.Replay(os.Args[3]))
	}
	chk := drv.Lookup(id)
	if chk == nil {
		fmt.Fprintf(os.Stderr, "unknown property %q; registered: %v\n", id, drv.Registered())
		os.Exit(2)
	}
	tier := os.Args[2]
	if tier != "quick" && tier != "thorough" {
		fmt.Fprintln(os.Stderr, "tier must be quick or thorough")
		os.Exit(2)
	}
	seed := uint64(1)
	if v := os.Getenv("VERIF_SEED"); v != "" {
		if x, err := strconv.ParseUint(v, 10, 64); err == nil {
			seed = x
		} else if y, err := strconv.ParseInt(v, 10, 64); err == nil {
			seed = uint64(y)
		}
	}
	os.Exit(drv.RunTier(chk, tier, seed))
}

// shell: ad-hoc requests against a fresh world.  Lines: METHOD URL [BODY] | restart clean|kill | rpc args... | sleep ms
func shell(tag string) {
	w := drv.NewWorld("shell-"+tag, drv.Knobs{MapSeed: 1, UUIDSeed: 1, SchedSeed: 1, AllowSplit: true})
	defer w.Close()
	if _, err := w.Start(); err != nil {
		fmt.Println("ERR", err)
		return
	}
	sc := bufio.NewScanner(os.Stdin)
	sc.Buffer(make([]byte, 1<<20), 1<<26)
	for sc.Scan() {
		line := strings.TrimSpace(sc.Text())
		if line == "" || line[0] == '#' {
			continue
		}
		f := strings.SplitN(line, " ", 3)
		switch f[0] {
		case "restart":
			_, err := w.Restart(f[1])
			fmt.Println("restart", err)
		case "sleep":
			n, _ := strconv.Atoi(f[1])
			w.Sleep(int64(n))
		case "rpc":
			st, txt, err := w.RPC(nil, strings.Fields(line)[1:]...)
			fmt.Println(st, txt, err)
		default:
			body := ""
			if len(f) > 2 {
				body = f[2]
			}
			bb := []byte(body)
			if strings.HasPrefix(body, "@") {
				bb, _ = os.ReadFile(body[1:])
			}
			st, b, err := w.HTTP(f[0], f[1], bb)
			if err != nil {
				fmt.Println("ERR", err)
				return
			}
			printable := true
			for _, c := range b {
				if c < 9 || c > 126 {
					printable = false
					break
				}
			}
			if st == 500 && strings.Contains(string(b), "Panic detected") {
				t := w.ChildStderrTail(6000)
				if i := strings.LastIndex(t, "Stack trace from"); i >= 0 {
					t = t[i:]
				}
				var keep []string
				for _, ln := range strings.Split(t, "\n") {
					if strings.Contains(ln, "/repo/") || strings.Contains(ln, "janelia-flyem/dvid") {
						keep = append(keep, ln)
					}
				}
				if len(keep) > 14 {
					keep = keep[:14]
				}
				fmt.Println("PANIC STACK:\n" + strings.Join(keep, "\n"))
			}
			if printable {
				fmt.Printf("%s %s -> %d %s\n", f[0], f[1], st, string(b))
			} else {
				n := len(b)
				if n > 96 {
					n = 96
				}
				fmt.Printf("%s %s -> %d [%d bytes] %x\n", f[0], f[1], st, len(b), b[:n])
			}
		}
	}
}
