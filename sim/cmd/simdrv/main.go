// simdrv: the simulator parent.  Usage:
//   simdrv <property> quick|thorough
//   simdrv <property> --replay <file>
//   simdrv selftest-determinism
package main

import (
	"fmt"
	"os"
	"strconv"

	"verif/sim/drv"
	_ "verif/sim/props"
)

func main() {
	if len(os.Args) < 3 {
		fmt.Fprintf(os.Stderr, "usage: simdrv <property> quick|thorough|--replay <file>\nregistered: %v\n", drv.Registered())
		os.Exit(2)
	}
	id := os.Args[1]
	if os.Args[2] == "--replay" {
		if len(os.Args) < 4 {
			os.Exit(2)
		}
		os.Exit(drv.Replay(os.Args[3]))
	}
	chk := drv.Lookup(id)
	if chk == nil {
		fmt.Fprintf(os.Stderr, "unknown property %q; registered: %v\n", id, drv.Registered())
		os.Exit(2)
	}
	tier := os.Args[2]
	if tier != "quick" && tier != "thorough" {
		fmt.Fprintln(os.Stderr, "tier must be quick or thorough")
		os.Exit(2)
	}
	seed := uint64(1)
	if v := os.Getenv("VERIF_SEED"); v != "" {
		if x, err := strconv.ParseUint(v, 10, 64); err == nil {
			seed = x
		} else if y, err := strconv.ParseInt(v, 10, 64); err == nil {
			seed = uint64(y)
		}
	}
	os.Exit(drv.RunTier(chk, tier, seed))
}
