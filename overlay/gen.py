#!/usr/bin/env python3
"""Generate a `go build -overlay` file that pins Go's hash-map iteration order.

Only the *build* of the simulation child sees the patched files; GOROOT and
/repo are untouched.  Every textual patch asserts its expected match count so
that a toolchain change fails loudly (exit 2 from bin/build) instead of silently
producing a stock runtime.

Pinned:
  * per-map hash seed  (every use `m.seed)` -> `m.pinSeed())`)
  * iteration start offsets (table.go Iter.Init)
  * AES / fallback hash keys (runtime/alg.go alginit) -> constants
and added:
  * runtime.VerifLabels()  -> current goroutine's profiler-label pointer
  * runtime.VerifGoID()    -> current goroutine id
  * sync.VerifLockHook     -> optional callback before Mutex.Lock / RWMutex.Lock / RWMutex.RLock
The seed is read from env VERIF_MAPSEED (decimal) right after goenvs(); unset or
"off" leaves seeds/offsets random (hash keys stay constant).
"""
import json, os, re, sys, glob

goroot = sys.argv[1]
out = sys.argv[2]
src = os.path.join(goroot, "src")
os.makedirs(out, exist_ok=True)
replace = {}

def patch(rel, edits, append=""):
    p = os.path.join(src, rel)
    s = open(p).read()
    for old, new, count in edits:
        n = s.count(old)
        if n != count:
            sys.stderr.write("overlay/gen.py: %s: expected %d matches of %r, found %d\n" % (rel, count, old, n))
            sys.exit(2)
        s = s.replace(old, new)
    s += append
    dst = os.path.join(out, rel.replace("/", "__"))
    open(dst, "w").write(s)
    replace[p] = dst

patch("runtime/rand.go", [], append='''

// ---- verif: deterministic map seeds (build overlay only) ----

var verifPinOn bool
var verifPinSeed uint64

func verifPinInit() {
	s := gogetenv("VERIF_MAPSEED")
	if s == "" || s == "off" {
		return
	}
	var v uint64
	for i := 0; i < len(s); i++ {
		c := s[i]
		if c < '0' || c > '9' {
			return
		}
		v = v*10 + uint64(c-'0')
	}
	v = (v ^ 0x9e3779b97f4a7c15) * 0xbf58476d1ce4e5b9
	v ^= v >> 31
	v *= 0x94d049bb133111eb
	v ^= v >> 29
	verifPinSeed = v
	verifPinOn = true
}

//go:linkname maps_pin internal/runtime/maps.pin
func maps_pin() (uint64, bool) {
	return verifPinSeed, verifPinOn
}

// VerifLabels returns the profiler-label pointer of the calling goroutine
// (inherited by every goroutine it starts).
func VerifLabels() unsafe.Pointer {
	return getg().labels
}

// VerifGoID returns the id of the calling goroutine.
func VerifGoID() uint64 {
	return getg().goid
}
''')

patch("runtime/proc.go", [("\tgoenvs()\n", "\tgoenvs()\n\tverifPinInit()\n", 1)])

patch("runtime/alg.go", [
    ("hashkey[i] = uintptr(bootstrapRand())", "hashkey[i] = uintptr(0x9e3779b97f4a7c15 * uint64(i+1))", 1),
    ("key[i] = bootstrapRand()", "key[i] = 0xd6e8feb86659fd93 * uint64(i+1)", 1),
])

# ---- sync: an optional hook in front of every Mutex/RWMutex acquisition ----
# (nil unless the simulation child sets it; the child parks only callers inside DVID's own sources, so
# that the order in which request goroutines take DVID's locks is the seeded scheduler's decision too)
patch("sync/mutex.go", [
    ("func (m *Mutex) Lock() {\n\tm.mu.Lock()\n", "func (m *Mutex) Lock() {\n\tif h := VerifLockHook; h != nil {\n\t\th(\"Lock\")\n\t}\n\tm.mu.Lock()\n", 1),
], append="""

// VerifLockHook, when set by the simulation harness, is called before every
// Mutex.Lock, RWMutex.Lock and RWMutex.RLock (build overlay only).
var VerifLockHook func(kind string)
""")
patch("sync/rwmutex.go", [
    ("func (rw *RWMutex) RLock() {\n", "func (rw *RWMutex) RLock() {\n\tif h := VerifLockHook; h != nil {\n\t\th(\"RLock\")\n\t}\n", 1),
    ("func (rw *RWMutex) Lock() {\n", "func (rw *RWMutex) Lock() {\n\tif h := VerifLockHook; h != nil {\n\t\th(\"WLock\")\n\t}\n", 1),
])

total = 0
for p in sorted(glob.glob(os.path.join(src, "internal/runtime/maps/*.go"))):
    if p.endswith("_test.go"):
        continue
    rel = os.path.relpath(p, src)
    s = open(p).read()
    n = s.count("m.seed)")
    base = os.path.basename(p)
    edits = []
    app = ""
    if n:
        edits.append(("m.seed)", "m.pinSeed())", n))
        total += n
    if base == "runtime.go":
        app = '''

// ---- verif: deterministic map seeds (build overlay only) ----

//go:linkname pin
func pin() (uint64, bool)

func (m *Map) pinSeed() uintptr {
	if s, on := pin(); on {
		return uintptr(s)
	}
	return m.seed
}
'''
    if base == "table.go":
        edits.append(("\tit.entryOffset = rand()\n\tit.dirOffset = rand()\n",
                      "\tit.entryOffset = rand()\n\tit.dirOffset = rand()\n\tif s, on := pin(); on {\n\t\tit.entryOffset = s >> 7\n\t\tit.dirOffset = s >> 23\n\t}\n", 1))
    if edits or app:
        patch(rel, edits, app)
if total != 25:
    sys.stderr.write("overlay/gen.py: expected 25 m.seed use sites, found %d\n" % total)
    sys.exit(2)

# ---- Badger: every transaction start is a scheduler yield point ----
# (so that interleavings *inside* the DVID storage driver -- between two Badger
# transactions of one driver call -- are explored too, however the driver is edited)
if len(sys.argv) > 3:
    bdir = sys.argv[3]
    def patch_abs(path, edits, append=""):
        s = open(path).read()
        for old, new, count in edits:
            n = s.count(old)
            if n != count:
                sys.stderr.write("overlay/gen.py: %s: expected %d matches of %r, found %d\n" % (path, count, old, n))
                sys.exit(2)
            s = s.replace(old, new)
        s += append
        # the module cache cannot be overlaid: bdir is a writable copy used via a go.mod replace
        open(path, "w").write(s)
    patch_abs(os.path.join(bdir, "txn.go"), [
        ("func (db *DB) View(fn func(txn *Txn) error) error {\n", "func (db *DB) View(fn func(txn *Txn) error) error {\n\tif VerifYield != nil {\n\t\tVerifYield(\"View\")\n\t}\n", 1),
        ("func (db *DB) Update(fn func(txn *Txn) error) error {\n", "func (db *DB) Update(fn func(txn *Txn) error) error {\n\tif VerifYield != nil {\n\t\tVerifYield(\"Update\")\n\t}\n", 1),
    ], append="""

// VerifYield, when set by the simulation harness, is called at the start of
// every View/Update transaction and WriteBatch flush (build overlay only).
var VerifYield func(kind string)
""")
    patch_abs(os.path.join(bdir, "batch.go"), [
        ("func (wb *WriteBatch) Flush() error {\n", "func (wb *WriteBatch) Flush() error {\n\tif VerifYield != nil {\n\t\tVerifYield(\"Flush\")\n\t}\n", 1),
    ])

json.dump({"Replace": replace}, open(os.path.join(out, "overlay.json"), "w"), indent=1)
print(os.path.join(out, "overlay.json"))
